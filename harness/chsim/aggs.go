package chsim

import (
	"math"
	"sort"
	"strings"
)

// aggSpec describes an aggregate function after stripping combinators.
type aggSpec struct {
	base   string // canonical base name
	ifComb bool   // -If
	arrayC bool   // -Array
	merge  bool   // -Merge
}

var aggBases = map[string]bool{
	"count": true, "sum": true, "avg": true, "min": true, "max": true, "any": true, "anyLast": true,
	"argMin": true, "argMax": true, "groupArray": true, "groupUniqArray": true, "groupBitOr": true,
	"groupBitAnd": true, "varPop": true, "stddevPop": true, "varSamp": true, "stddevSamp": true,
	"quantile": true, "quantileExact": true, "uniqExact": true, "uniq": true,
}

// names ClickHouse registers case-insensitively (SQL standard aggregates)
var aggCI = map[string]string{"count": "count", "sum": "sum", "avg": "avg", "min": "min", "max": "max", "any": "any",
	"var_pop": "varPop", "stddev_pop": "stddevPop"}

func aggregateSpec(name string) (aggSpec, bool) {
	s := aggSpec{}
	n := name
	if aggBases[n] {
		s.base = n
		return s, true
	}
	if c, ok := aggCI[strings.ToLower(n)]; ok {
		s.base = c
		return s, true
	}
	if strings.HasSuffix(n, "If") {
		s.ifComb = true
		n = strings.TrimSuffix(n, "If")
	}
	if strings.HasSuffix(n, "Merge") {
		s.merge = true
		n = strings.TrimSuffix(n, "Merge")
	}
	if strings.HasSuffix(n, "Array") && !aggBases[n] {
		s.arrayC = true
		n = strings.TrimSuffix(n, "Array")
	}
	if aggBases[n] {
		s.base = n
		return s, true
	}
	return aggSpec{}, false
}

func (en *env) evalAggregate(c *Call, spec aggSpec) (any, error) {
	if en.inAgg {
		return nil, execErr("aggregate function %s inside another aggregate function (ILLEGAL_AGGREGATION)", c.Name)
	}
	if en.agg == nil {
		return nil, execErr("aggregate function %s used outside an aggregating context", c.Name)
	}
	args := c.Args
	var cond Expr
	if spec.ifComb {
		if len(args) == 0 {
			return nil, execErr("%s: condition argument missing", c.Name)
		}
		cond, args = args[len(args)-1], args[:len(args)-1]
	}
	// evaluate the arguments row by row
	var rows [][]any
	for _, r := range en.agg.rows {
		re := &env{b: en.b, row: r, vars: en.vars, inAgg: true}
		if cond != nil {
			v, err := re.eval(cond)
			if err != nil {
				return nil, err
			}
			t, err := truth(v)
			if err != nil {
				return nil, err
			}
			if !t {
				continue
			}
		}
		vals := make([]any, len(args))
		skip := false
		for i, a := range args {
			v, err := re.eval(a)
			if err != nil {
				return nil, err
			}
			if v == nil {
				skip = true // aggregate functions skip rows with a NULL argument
			}
			vals[i] = v
		}
		if skip {
			continue
		}
		if spec.arrayC {
			if len(vals) != 1 {
				return nil, unsupported("-Array combinator with %d arguments", len(vals))
			}
			arr, err := asArray(vals[0], c.Name)
			if err != nil {
				return nil, err
			}
			for _, e := range arr {
				if e != nil {
					rows = append(rows, []any{e})
				}
			}
			continue
		}
		rows = append(rows, vals)
	}
	var params []any
	for _, p := range c.Params {
		v, err := (&env{b: en.b}).eval(p)
		if err != nil {
			return nil, err
		}
		params = append(params, v)
	}
	if c.Distinct {
		seen := map[string]bool{}
		kept := rows[:0:0]
		for _, r := range rows {
			k := valueKey(Tuple(r))
			if !seen[k] {
				seen[k] = true
				kept = append(kept, r)
			}
		}
		rows = kept
	}
	if spec.merge {
		return mergeAggregate(c.Name, spec.base, rows)
	}
	// An aggregate function over a Nullable argument returns Nullable: NULL when it consumed
	// no non-NULL value (docs: "Aggregate functions / NULL processing"), except count, uniq*
	// and the groupArray family.
	if len(rows) == 0 && len(args) > 0 && en.b.nullable(c) {
		return nil, nil
	}
	return computeAggregate(c.Name, spec.base, params, rows)
}

func needArgs(name string, rows [][]any, n int) error {
	for _, r := range rows {
		if len(r) != n {
			return execErr("aggregate function %s takes %d argument(s), %d given", name, n, len(r))
		}
		break
	}
	return nil
}

func column(rows [][]any, i int) []any {
	out := make([]any, len(rows))
	for k, r := range rows {
		out[k] = r[i]
	}
	return out
}

func floats(name string, vals []any) ([]float64, error) {
	out := make([]float64, len(vals))
	for i, v := range vals {
		f, ok := toFloat(v)
		if !ok {
			return nil, execErr("illegal type %s of argument of aggregate function %s", typeName(v), name)
		}
		out[i] = f
	}
	return out, nil
}

// computeAggregate: semantics from docs "Aggregate functions / reference".
//
//	count            number of rows (count(x): rows where x is not NULL); UInt64
//	sum              UInt64 / Int64 / Float64 by argument kind; 0 on empty input
//	avg              Float64 sum/count; nan on empty input
//	min/max/any      type of the argument; the type's default on empty input (non-Nullable)
//	argMin/argMax    arg of the row with the smallest/largest val (first such row)
//	groupArray[(n)]  values in arrival order, at most n
//	groupUniqArray   distinct values (ClickHouse: unspecified order; chsim: first appearance)
//	groupBitOr/And   bitwise over integers; type of the argument
//	varPop/stddevPop population variance / its root; nan on empty input (Float64)
//	quantile(l)      interpolated quantile of the sorted values (ReservoirSampler
//	                 quantileInterpolated: exact for fewer than 8192 values); nan on empty
//	uniqExact / count(DISTINCT x)   number of distinct values
func computeAggregate(name, base string, params []any, rows [][]any) (any, error) {
	switch base {
	case "count":
		if len(rows) > 0 && len(rows[0]) > 1 {
			return nil, execErr("count takes at most one argument")
		}
		return uint64(len(rows)), nil
	case "uniqExact", "uniq":
		seen := map[string]bool{}
		for _, r := range rows {
			seen[valueKey(Tuple(r))] = true
		}
		return uint64(len(seen)), nil
	}
	if base == "argMin" || base == "argMax" {
		if err := needArgs(name, rows, 2); err != nil {
			return nil, err
		}
		if len(rows) == 0 {
			return Zero{}, nil
		}
		best := 0
		for i := 1; i < len(rows); i++ {
			c, err := compare(rows[i][1], rows[best][1])
			if err != nil {
				return nil, err
			}
			if (base == "argMin" && c < 0) || (base == "argMax" && c > 0) {
				best = i
			}
		}
		return rows[best][0], nil
	}
	if err := needArgs(name, rows, 1); err != nil {
		return nil, err
	}
	vals := column(rows, 0)
	switch base {
	case "sum":
		anyF, anyI := false, false
		var su uint64
		var si int64
		var sf float64
		for _, v := range vals {
			k, _, u, i, f := numInfo(v)
			switch k {
			case kNone:
				return nil, execErr("illegal type %s of argument of aggregate function sum", typeName(v))
			case kFloat:
				anyF = true
			case kInt:
				anyI = true
			}
			su += u
			si += i
			sf += f
		}
		switch {
		case anyF:
			return sf, nil
		case anyI:
			return si, nil
		}
		return su, nil
	case "avg":
		fs, err := floats(name, vals)
		if err != nil {
			return nil, err
		}
		if len(fs) == 0 {
			return math.NaN(), nil
		}
		s := 0.0
		for _, f := range fs {
			s += f
		}
		return s / float64(len(fs)), nil
	case "min", "max":
		if len(vals) == 0 {
			return Zero{}, nil
		}
		best := vals[0]
		for _, v := range vals[1:] {
			// NaN: ClickHouse's min/max skip nothing; comparisons with NaN are false, so a NaN
			// first value sticks. Modelled the same way.
			if isNaN(v) || isNaN(best) {
				continue
			}
			c, err := compare(v, best)
			if err != nil {
				return nil, err
			}
			if (base == "min" && c < 0) || (base == "max" && c > 0) {
				best = v
			}
		}
		return best, nil
	case "any":
		if len(vals) == 0 {
			return Zero{}, nil
		}
		return vals[0], nil
	case "anyLast":
		if len(vals) == 0 {
			return Zero{}, nil
		}
		return vals[len(vals)-1], nil
	case "groupArray":
		limit := -1
		if len(params) == 1 {
			n, err := asInt(params[0], "groupArray")
			if err != nil || n <= 0 {
				return nil, execErr("groupArray: parameter must be a positive integer")
			}
			limit = int(n)
		} else if len(params) > 1 {
			return nil, execErr("groupArray takes at most one parameter")
		}
		out := append([]any{}, vals...)
		if limit >= 0 && len(out) > limit {
			out = out[:limit]
		}
		return out, nil
	case "groupUniqArray":
		limit := -1
		if len(params) == 1 {
			n, err := asInt(params[0], "groupUniqArray")
			if err != nil || n <= 0 {
				return nil, execErr("groupUniqArray: parameter must be a positive integer")
			}
			limit = int(n)
		}
		seen := map[string]bool{}
		out := []any{}
		for _, v := range vals {
			k := valueKey(v)
			if !seen[k] {
				if limit >= 0 && len(out) >= limit {
					break
				}
				seen[k] = true
				out = append(out, v)
			}
		}
		return out, nil
	case "groupBitOr", "groupBitAnd":
		var acc uint64
		if base == "groupBitAnd" {
			acc = ^uint64(0)
		}
		w, signed := 8, false
		for i, v := range vals {
			k, bw, u, _, _ := numInfo(v)
			if k != kUint && k != kInt {
				return nil, execErr("illegal type %s of argument of aggregate function %s", typeName(v), name)
			}
			if i == 0 || bw > w {
				w = bw
			}
			signed = signed || k == kInt
			if base == "groupBitOr" {
				acc |= u
			} else {
				acc &= u
			}
		}
		if len(vals) == 0 {
			if base == "groupBitAnd" {
				return Zero{}, nil
			}
			return uint8(0), nil
		}
		if signed {
			return mkInt(w, int64(acc)), nil
		}
		return mkUint(w, acc&maskBits(w)), nil
	case "varPop", "stddevPop", "varSamp", "stddevSamp":
		fs, err := floats(name, vals)
		if err != nil {
			return nil, err
		}
		n := float64(len(fs))
		if len(fs) == 0 || (len(fs) == 1 && strings.HasSuffix(base, "Samp")) {
			return math.NaN(), nil
		}
		mean := 0.0
		for _, f := range fs {
			mean += f
		}
		mean /= n
		m2 := 0.0
		for _, f := range fs {
			m2 += (f - mean) * (f - mean)
		}
		div := n
		if strings.HasSuffix(base, "Samp") {
			div = n - 1
		}
		v := m2 / div
		if strings.HasPrefix(base, "stddev") {
			return math.Sqrt(v), nil
		}
		return v, nil
	case "quantile", "quantileExact":
		level := 0.5
		if len(params) == 1 {
			f, ok := toFloat(params[0])
			if !ok || f < 0 || f > 1 {
				return nil, execErr("quantile level must be a number in [0, 1]")
			}
			level = f
		} else if len(params) > 1 {
			return nil, execErr("quantile takes one parameter")
		}
		fs, err := floats(name, vals)
		if err != nil {
			return nil, err
		}
		if len(fs) == 0 {
			return math.NaN(), nil
		}
		if len(fs) >= 8192 {
			return nil, unsupported("quantile over >= 8192 values is sampled in ClickHouse")
		}
		sort.Float64s(fs)
		if base == "quantileExact" {
			// QuantileExact: element at floor(level * n), clamped
			i := int(level * float64(len(fs)))
			if i >= len(fs) {
				i = len(fs) - 1
			}
			return fs[i], nil
		}
		idx := math.Max(0, math.Min(float64(len(fs))-1, level*float64(len(fs)-1)))
		li := int(idx)
		ri := li + 1
		if ri == len(fs) {
			return fs[li], nil
		}
		return fs[li]*(float64(ri)-idx) + fs[ri]*(idx-float64(li)), nil
	}
	return nil, unsupported("aggregate function %s", name)
}

// mergeAggregate: -Merge over columns holding aggregate states. States are modelled as:
//
//	countMerge(c)    c holds partial counts (unsigned integers): their sum
//	sumMerge(c)      partial sums: their sum (same typing as sum)
//	minMerge/maxMerge partial minima / maxima
//	argMaxMerge(c) / argMinMerge(c)   c holds Tuple(arg, val) states: arg of the extreme val
//	anyMerge          first state
func mergeAggregate(name, base string, rows [][]any) (any, error) {
	if err := needArgs(name, rows, 1); err != nil {
		return nil, err
	}
	vals := column(rows, 0)
	switch base {
	case "count", "sum":
		return computeAggregate(name, "sum", nil, rows)
	case "min", "max", "any":
		return computeAggregate(name, base, nil, rows)
	case "argMax", "argMin":
		pairs := make([][]any, 0, len(vals))
		for _, v := range vals {
			t, ok := v.(Tuple)
			if !ok || len(t) != 2 {
				return nil, execErr("%s: state must be a Tuple(arg, val), got %s", name, typeName(v))
			}
			pairs = append(pairs, []any{t[0], t[1]})
		}
		return computeAggregate(name, base, nil, pairs)
	}
	return nil, unsupported("aggregate function %s", name)
}

package chsim

import (
	"errors"
	"fmt"
	"math"
	"reflect"
	"strings"
	"testing"

	"pgregory.net/rapid"
)

func show(v any) string {
	switch x := v.(type) {
	case nil:
		return "NULL"
	case string:
		return QuoteString(x)
	case []any:
		p := make([]string, len(x))
		for i, e := range x {
			p[i] = show(e)
		}
		return "[" + strings.Join(p, ",") + "]"
	case Tuple:
		p := make([]string, len(x))
		for i, e := range x {
			p[i] = show(e)
		}
		return "(" + strings.Join(p, ",") + ")"
	case Map:
		p := make([]string, len(x))
		for i, e := range x {
			p[i] = show(e.K) + ":" + show(e.V)
		}
		return "{" + strings.Join(p, ",") + "}"
	case float64:
		return formatFloat(x)
	case Date:
		return x.String()
	case Zero:
		return "<zero>"
	}
	return fmt.Sprintf("%v", v)
}

func evalOne(t testing.TB, db *DB, expr string) (any, error) {
	res, err := db.Query("SELECT " + expr)
	if err != nil {
		return nil, err
	}
	if len(res.Rows) != 1 || len(res.Rows[0]) != 1 {
		t.Fatalf("%s: %d rows", expr, len(res.Rows))
	}
	return res.Rows[0][0], nil
}

// Cases taken from the ClickHouse documentation pages of each function (values quoted
// there) plus the typing rules stated on those pages.
func TestFunctionDocCases(t *testing.T) {
	db := NewDB()
	cases := []struct{ expr, want string }{
		// literals and typing
		{"1", "1"}, {"-1", "-1"}, {"1.5", "1.5"}, {"0x10", "16"}, {"'a'", "'a'"}, {"NULL", "NULL"},
		{"[1,2]", "[1,2]"}, {"(1,'a')", "(1,'a')"}, {"tuple(1)", "(1)"}, {"[]", "[]"},
		// arithmetic: result types
		{"255 + 1", "256"}, {"2 * 3", "6"}, {"1 - 2", "-1"}, {"7 / 2", "3.5"}, {"7 % 3", "1"}, {"-(1)", "-1"},
		{"intDiv(7, 2)", "3"}, {"intDiv(-7, 2)", "-3"}, {"intDiv(1700000000123456789, 5000000000) * 5000000000", "1700000000000000000"},
		{"1 + 2 * 3", "7"}, {"(1 + 2) * 3", "9"}, {"2 - 1 - 1", "0"},
		{"toFloat64(3) / 2", "1.5"}, {"1 / 0", "inf"},
		// comparison and logic
		{"1 == 1", "1"}, {"1 = 2", "0"}, {"1 != 2", "1"}, {"1 <> 1", "0"}, {"'a' < 'b'", "1"}, {"2 >= 2.0", "1"},
		{"(1,'a') == (1,'a')", "1"}, {"(1,'a') != (1,'b')", "1"}, {"[1,2] == [1,2]", "1"},
		{"1 AND 0", "0"}, {"1 OR 0", "1"}, {"NOT 1", "0"}, {"NULL AND 0", "0"}, {"NULL AND 1", "NULL"}, {"NULL OR 1", "1"}, {"NULL OR 0", "NULL"},
		{"1 == 1 == 1", "1"}, {"NOT 1 == 2", "1"}, {"1 < 2 AND 2 < 3 OR 0", "1"},
		{"NULL == 1", "NULL"}, {"NULL IS NULL", "1"}, {"1 IS NOT NULL", "1"}, {"isNotNull(NULL)", "0"}, {"isNull(NULL)", "1"},
		{"1 IN (1, 2)", "1"}, {"3 IN (1, 2)", "0"}, {"3 NOT IN (1, 2)", "1"}, {"'a' IN ('a')", "1"}, {"(1,'a') IN ((1,'a'),(2,'b'))", "1"}, {"(1,'b') IN ((1,'a'),(2,'b'))", "0"},
		{"NULL IN (1)", "NULL"}, {"1 IN (NULL, 1)", "1"},
		{"if(1, 'a', 'b')", "'a'"}, {"if(0, 'a', 'b')", "'b'"}, {"if(NULL, 'a', 'b')", "'b'"}, {"1 ? 'a' : 'b'", "'a'"},
		// conversion
		{"toFloat64('1.5')", "1.5"}, {"toFloat64(2)", "2"}, {"toFloat64OrNull('1.5')", "1.5"}, {"toFloat64OrNull('abc')", "NULL"},
		{"toFloat64OrNull('')", "NULL"}, {"toFloat64OrNull(' 1')", "NULL"}, {"toFloat64OrNull('1 ')", "NULL"}, {"toFloat64OrNull('1e3')", "1000"},
		{"toFloat64OrNull('0x10')", "NULL"}, {"toFloat64OrNull('-1.5')", "-1.5"}, {"toFloat64OrNull('.5')", "0.5"}, {"toFloat64OrNull('1_0')", "NULL"},
		{"toFloat64OrZero('abc')", "0"}, {"toFloat64OrZero('12')", "12"}, {"isNotNull(toFloat64OrNull('x'))", "0"},
		{"toUInt64(1 == 1)", "1"}, {"toUInt64('42')", "42"}, {"toUInt64(3.9)", "3"}, {"toString(42)", "'42'"}, {"toString(1.5)", "'1.5'"}, {"toString('x')", "'x'"},
		{"toDate('2023-11-14')", "2023-11-14"}, {"toString(toDate('2023-11-14'))", "'2023-11-14'"}, {"toDate('2023-11-14') >= '2023-11-13'", "1"},
		{"toDate('2023-11-14') + INTERVAL '1 day'", "2023-11-15"}, {"toUnixTimestamp(toDate('1970-01-02'))", "86400"},
		{"1::Float64 / 2", "0.5"}, {"'7'::UInt64 + 1", "8"},
		// bit functions
		{"bitShiftLeft(1, 2)", "4"}, {"bitShiftLeft(1 == 1, 7)", "128"}, {"bitShiftLeft(1 == 1, 8)", "0"}, {"bitShiftLeft(toUInt64(1 == 1), 8)", "256"},
		{"bitShiftLeft(1 == 1, 0) + bitShiftLeft(1 == 1, 1)", "3"}, {"bitAnd(6, 3)", "2"}, {"bitOr(6, 3)", "7"}, {"bitShiftRight(8, 2)", "2"},
		// strings
		{"length('abc')", "3"}, {"length('é')", "2"}, {"length([1,2,3])", "3"}, {"lower('AbC')", "'abc'"}, {"lower('É')", "'É'"},
		{"hex('abc')", "'616263'"}, {"hex(255)", "'FF'"}, {"hex(1)", "'01'"}, {"lower(hex('\\xAB'))", "'ab'"}, {"unhex('616263')", "'abc'"}, {"hex(unhex('0aFF'))", "'0AFF'"},
		{"'a' || 'b'", "'ab'"}, {"concat('a', 'b', 'c')", "'abc'"},
		{"format('{} {}', 'Hello', 'World')", "'Hello World'"}, {"format('{1} {0} {1}', 'World', 'Hello')", "'Hello World Hello'"},
		{"splitByChar(',', '1,2,3,abcde')", "['1','2','3','abcde']"}, {"splitByChar(':', 'a:b:c')[2]", "'b'"}, {"splitByChar(',', '')", "['']"},
		{"match('hello world', 'o w')", "1"}, {"match('hello', '^ell')", "0"}, {"match('a\\nb', 'a.b')", "1"}, {"match('abc', '')", "1"}, {"match('x.y', 'x\\\\.y')", "1"}, {"match('xzy', 'x\\\\.y')", "0"},
		{"like('abc', 'a%')", "1"}, {"like('abc', 'a_c')", "1"}, {"like('a%c', 'a\\\\%c')", "1"}, {"like('abc', 'a\\\\%c')", "0"}, {"notLike('abc', '%b%')", "0"},
		{"ilike('ABC', '%b%')", "1"}, {"notILike('ABC', '%b%')", "0"}, {"'abc' LIKE 'a%'", "1"}, {"'abc' NOT LIKE 'a%'", "0"}, {"'ABC' ILIKE 'a%'", "1"},
		{"like('it''s', '%it\\'s%')", "1"},
		{"extractAllGroupsHorizontal('abc=111, def=222, ghi=333', '(\"[^\"]+\"|\\\\w+)=(\"[^\"]+\"|\\\\w+)')", "[['abc','def','ghi'],['111','222','333']]"},
		{"extractAllGroupsHorizontal('12 abc', '([0-9]+) (\\\\w+)')", "[['12'],['abc']]"}, {"extractAllGroupsHorizontal('zzz', '([0-9]+)')", "[[]]"},
		// arrays
		{"[1,2,3][1]", "1"}, {"[1,2,3][-1]", "3"}, {"[1,2,3][5]", "0"}, {"['a'][length(['a'])]", "'a'"}, {"arrayElement([1,2], 2)", "2"},
		{"arrayMap(x -> x + 1, [1,2,3])", "[2,3,4]"}, {"arrayMap((x, y) -> x + y, [1,2], [10,20])", "[11,22]"}, {"arrayMap(x -> (x, 1), [1,2])", "[(1,1),(2,1)]"},
		{"arrayFilter(x -> x > 1, [1,2,3])", "[2,3]"}, {"arrayFilter((x, y) -> y != '', ['a','b'], ['', 'k'])", "['b']"},
		{"arrayExists(x -> x == 2, [1,2])", "1"}, {"arrayExists(x -> x == 5, [1,2])", "0"}, {"arrayFirst(x -> x > 1, [1,2,3])", "2"}, {"arrayFirst(x -> x > 5, [1,2,3])", "0"},
		{"arraySort([3,1,2])", "[1,2,3]"}, {"arraySort(x -> -x, [3,1,2])", "[3,2,1]"}, {"arraySort(['b','a'])", "['a','b']"}, {"arraySort([(2,'a'),(1,'b'),(1,'a')])", "[(1,'a'),(1,'b'),(2,'a')]"},
		{"arraySort(x -> (-x.1, x.2), [(1,'b'),(2,'a'),(1,'a')])", "[(2,'a'),(1,'a'),(1,'b')]"},
		{"arrayZip(['a','b'], [1,2])", "[('a',1),('b',2)]"}, {"arraySlice([1,2,3,4,5], 2, 3)", "[2,3,4]"}, {"arraySlice([1,2,3,4,5], 1, 2)", "[1,2]"}, {"arraySlice([1,2,3], -2)", "[2,3]"}, {"arraySlice([1,2,3], 2)", "[2,3]"},
		{"(1,'a').2", "'a'"}, {"[(1,'a')][1].2", "'a'"}, {"((1,2) as t).1 + t.2", "3"},
		// maps
		{"mapFromArrays(['a','b'], ['1','2'])", "{'a':'1','b':'2'}"}, {"mapFromArrays(['a','b'], ['1','2'])['b']", "'2'"}, {"mapFromArrays(['a'], ['1'])['zz']", "''"},
		{"mapKeys(mapFromArrays(['a','b'], [1,2]))", "['a','b']"}, {"mapValues(mapFromArrays(['a','b'], [1,2]))", "[1,2]"},
		{"mapUpdate(mapFromArrays(['a','b'], ['1','2']), mapFromArrays(['b','c'], ['3','4']))", "{'a':'1','b':'3','c':'4'}"},
		{"mapFilter((k, v) -> k != 'a', mapFromArrays(['a','b'], ['1','2']))", "{'b':'2'}"}, {"mapFilter((k, v) -> (k, v) != ('a', '1'), mapFromArrays(['a','b'], ['1','2']))", "{'b':'2'}"},
		{"arraySort(arrayZip(mapKeys(mapFromArrays(['b','a'], ['1','2']) as m), mapValues(m)))", "[('a','2'),('b','1')]"},
		{"cityHash64(mapFromArrays(['a','b'], ['1','2'])) == cityHash64(mapFromArrays(['a','b'], ['1','2']))", "1"},
		{"cityHash64(mapFromArrays(['a','b'], ['1','2'])) == cityHash64(mapFromArrays(['b','a'], ['2','1']))", "0"},
		// JSON (docs: JSON functions)
		{`JSONExtractKeysAndValues('{"a":"hello","b":"x"}', 'String')`, "[('a','hello'),('b','x')]"},
		{`JSONExtractKeysAndValues('{"x": {"a": "5", "b": "7"}}', 'x', 'String')`, "[('a','5'),('b','7')]"},
		{`JSONExtractKeysAndValues('not json', 'String')`, "[]"},
		{`JSONExtractString('{"a": "hello", "b": [-100, 200.0, 300]}', 'a')`, "'hello'"}, {`JSONExtractString('{"abc":"\\n\\u0000"}', 'abc')`, "'\\x0a\\x00'"},
		{`JSONExtractString('{"abc":"\\u263a"}', 'abc')`, "'☺'"}, {`JSONExtractString('{"abc":"\\u263"}', 'abc')`, "''"}, {`JSONExtractString('{"abc":"hello}', 'abc')`, "''"},
		{`JSONExtractString('{"a": 1}', 'a')`, "''"}, {`JSONExtractString('{"a": {"b": "c"}}', 'a', 'b')`, "'c'"}, {`JSONExtractString('{"a": ["x","y"]}', 'a', 2)`, "'y'"}, {`JSONExtractString('{"a": ["x","y"]}', 'a', -1)`, "'y'"},
		{`JSONExtractRaw('{"a": "hello", "b": [-100, 200.0, 300]}', 'b')`, "'[-100,200,300]'"}, {`JSONExtractRaw('{"a": {"b" : "c"}}', 'a')`, `'{"b":"c"}'`}, {`JSONExtractRaw('{"a": 1}', 'zz')`, "''"}, {`JSONExtractRaw('{"a": "s"}', 'a')`, `'"s"'`},
		{`JSONType('{"a": "hello", "b": [-100, 200.0, 300]}')`, "'Object'"}, {`JSONType('{"a": "hello", "b": [-100, 200.0, 300]}', 'a')`, "'String'"}, {`JSONType('{"a": "hello", "b": [-100, 200.0, 300]}', 'b')`, "'Array'"},
		{`JSONType('{"a": 1}', 'a')`, "'Int64'"}, {`JSONType('{"a": 1.5}', 'a')`, "'Double'"}, {`JSONType('{"a": true}', 'a')`, "'Bool'"}, {`JSONType('{"a": null}', 'a')`, "'Null'"}, {`JSONType('{"a": 1}', 'b')`, "'Null'"}, {`JSONType('{"a": 18446744073709551615}', 'a')`, "'UInt64'"},
		{`JSONType('{"y":{"z":"q"}}', 'y', 'z' as jp) == 'String'`, "1"}, {`JSONHas('{"a": 1}', 'a')`, "1"},
		{`mapFromArrays(arrayMap(x -> x.1, JSONExtractKeysAndValues('{"a":"b","c":"d"}', 'String') as r), arrayMap(x -> x.2, r))`, "{'a':'b','c':'d'}"},
	}
	for _, c := range cases {
		v, err := evalOne(t, db, c.expr)
		if err != nil {
			t.Errorf("%s: %v", c.expr, err)
			continue
		}
		if got := show(v); got != c.want {
			t.Errorf("%s = %s, want %s", c.expr, got, c.want)
		}
	}
	// typing facts
	typed := []struct {
		expr string
		want any
	}{
		{"1", uint8(1)}, {"256", uint16(256)}, {"-1", int8(-1)}, {"1 == 1", uint8(1)}, {"1 + 1", uint16(2)}, {"toUInt64(1)", uint64(1)},
		{"1 - 1", int16(0)}, {"length('a')", uint64(1)}, {"bitShiftLeft(1, 1)", uint8(2)}, {"bitShiftLeft(toUInt64(1), 1)", uint64(2)},
		{"intDiv(toInt64(7), 2)", int64(3)}, {"65535 * 65535", uint32(4294836225)},
		// REQUESTS.md b-c17 #1: ResultOfModulo
		{"(toInt64(1699963197500) - 1699963140000) % 60000", int32(57500)}, {"toInt64(-199) % 200", int16(-199)}, {"toUInt64(70000) % 60000", uint16(10000)},
		{"toInt64(7) % 4294967295", int64(7)}, {"7 % 3", uint8(1)},
	}
	for _, c := range typed {
		v, err := evalOne(t, db, c.expr)
		if err != nil || !reflect.DeepEqual(v, c.want) {
			t.Errorf("%s = %T(%v), want %T(%v) (%v)", c.expr, v, v, c.want, c.want, err)
		}
	}
	// statements ClickHouse rejects
	for _, expr := range []string{
		"toFloat64('abc')", "toFloat64OrNull(1)", "intDiv(1, 0)", "1 % 0", "'a' + 1", "match('a', '(')", "like('a', 'a\\\\')", "[1,2][0]",
		"mapFromArrays(['a'], [1,2])", "arrayZip([1],[1,2])", "extractAllGroupsHorizontal('a', 'a')", "splitByChar('ab', 'x')", "(1,2).3",
		"1 == 'a'", "length(1)", "nosuchcolumn", "arrayMap(x -> x, 1)", "toDate('garbage')", "lower(1)",
	} {
		if _, err := evalOne(t, db, expr); !errors.Is(err, ErrExec) {
			t.Errorf("%s: expected ErrExec, got %v", expr, err)
		}
	}
	for _, expr := range []string{"nosuchfunction(1)", "CASE WHEN 1 THEN 2 END", "1 BETWEEN 0 AND 2", "count() OVER ()"} {
		if _, err := evalOne(t, db, expr); !errors.Is(err, ErrUnsupported) {
			t.Errorf("%s: expected ErrUnsupported, got %v", expr, err)
		}
	}
}

func testDB() *DB {
	db := NewDB()
	db.AddTable("t", []string{"k", "v", "s", "ts"}, [][]any{
		{"a", 1.0, "x", int64(10)}, {"a", 3.0, "y", int64(20)}, {"b", 5.0, "x", int64(30)}, {"b", 7.0, "z", int64(5)}, {"c", nil, "x", int64(40)},
	})
	db.AddTable("r", []string{"k", "w"}, [][]any{{"a", uint64(100)}, {"a", uint64(101)}, {"c", uint64(300)}, {"d", uint64(400)}})
	db.AddTable("arr", []string{"id", "xs"}, [][]any{{uint64(1), []any{"p", "q"}}, {uint64(2), []any{}}, {uint64(3), []any{"r"}}})
	db.AddTable("m15", []string{"fp", "cnt", "last"}, [][]any{{uint64(1), uint64(2), Tuple{1.5, int64(10)}}, {uint64(1), uint64(3), Tuple{2.5, int64(20)}}, {uint64(2), uint64(1), Tuple{9.0, int64(5)}}})
	db.Alias("t_dist", "t")
	return db
}

func rowsString(res *Result) string {
	var p []string
	for _, r := range res.Rows {
		q := make([]string, len(r))
		for i, v := range r {
			q[i] = show(v)
		}
		p = append(p, strings.Join(q, ","))
	}
	return strings.Join(p, " | ")
}

func TestStatements(t *testing.T) {
	db := testDB()
	cases := []struct{ sql, want string }{
		// aggregates (docs: aggregate function reference)
		{"SELECT count(), count(v), sum(v), avg(v), min(v), max(v), any(k) FROM t", "5,4,16,4,1,7,'a'"},
		{"SELECT k, sum(v) FROM t GROUP BY k ORDER BY k", "'a',4 | 'b',12 | 'c',NULL"}, // v holds a NULL: Nullable column
		{"SELECT k, count(DISTINCT s), groupArray(s), groupUniqArray(s), groupArray(1)(s) FROM t GROUP BY k ORDER BY k DESC LIMIT 2", "'c',1,['x'],['x'],['x'] | 'b',2,['x','z'],['x','z'],['x']"},
		{"SELECT argMin(v, ts), argMax(v, ts), argMax(s, ts) FROM t WHERE k == 'b'", "7,5,'x'"},
		{"SELECT varPop(v), stddevPop(v), quantile(0.5)(v), quantile(0.25)(v), quantile(v) FROM t WHERE k != 'c'", "5,2.23606797749979,4,2.5,4"},
		{"SELECT sumIf(v, s == 'x'), countIf(s == 'x'), avgIf(v, k == 'a'), minIf(v, v > 1), maxIf(v, v < 7), anyIf(s, v > 4) FROM t", "6,3,2,3,5,'x'"},
		{"SELECT groupBitOr(bitShiftLeft(s == 'x', 0) + bitShiftLeft(s == 'y', 1)) FROM t GROUP BY k ORDER BY k", "3 | 1 | 1"},
		{"SELECT count() FROM t WHERE k == 'zzz'", "0"},
		{"SELECT count(), sum(v), avg(v), sum(ts), avg(ts) FROM t WHERE k == 'zzz'", "0,NULL,NULL,0,nan"},
		{"SELECT k FROM t WHERE k == 'zzz' GROUP BY k", ""},
		{"SELECT fp, countMerge(cnt), argMaxMerge(last) FROM m15 GROUP BY fp ORDER BY fp", "1,5,2.5 | 2,1,9"},
		{"SELECT groupUniqArrayArray(xs) FROM arr", "['p','q','r']"},
		{"SELECT toFloat64(count(distinct t.s)) > 2 FROM t", "1"},
		{"SELECT k FROM t GROUP BY k HAVING sum(v) > 4 ORDER BY k", "'b'"},
		{"SELECT k, (k, sum(v)) FROM t GROUP BY k ORDER BY sum(v) DESC LIMIT 1", "'b',('b',12)"},
		// alias resolution
		{"SELECT intDiv(ts, 20) * 20 as ts, count() FROM t GROUP BY ts ORDER BY ts", "0,2 | 20,2 | 40,1"},
		{"SELECT t.ts as ts FROM t WHERE ts > 25 ORDER BY ts desc", "40 | 30"},
		{"SELECT v * 2 as v FROM t WHERE v >= 6 ORDER BY v", "6 | 10 | 14"}, // alias wins in WHERE: v*2 >= 6
		{"SELECT v * 2 as w FROM t WHERE w >= 6 AND t.v < 7 ORDER BY w", "6 | 10"},
		{"SELECT (v + 1 as p) + p as q, p FROM t WHERE k == 'a' ORDER BY q", "4,2 | 8,4"},
		{"SELECT k as k, groupArray(2)(s) as s FROM t GROUP BY k HAVING count(distinct t.s) > 1 ORDER BY k", "'a',['x','y'] | 'b',['x','z']"},
		// IN
		{"SELECT k FROM t WHERE k IN (SELECT k FROM r) ORDER BY ts", "'a' | 'a' | 'c'"},
		{"WITH ks as (SELECT k FROM r WHERE w > 200) SELECT k FROM t WHERE k IN (ks)", "'c'"},
		{"WITH ks as (SELECT k FROM r WHERE w > 200) SELECT k FROM t WHERE k IN ks", "'c'"},
		{"SELECT k FROM t WHERE t.k IN (( SELECT k FROM r WHERE w > 200) as ks)", "'c'"},
		{"WITH ks as (SELECT k, w FROM r) SELECT count() FROM t WHERE (k, toUInt64(100)) IN (ks)", "2"},
		{"SELECT count() FROM t WHERE k NOT IN ('a', 'b')", "1"},
		{"SELECT count() FROM t WHERE k IN (r)", ""}, // error expected, see below
		// joins
		{"SELECT t.k, w FROM t ANY LEFT JOIN r ON t.k == r.k ORDER BY ts", "'b',0 | 'a',100 | 'a',100 | 'b',0 | 'c',300"},
		{"SELECT t.k, r.w FROM t as t ANY LEFT  JOIN r as r ON (t.k) == (r.k) WHERE w != 0 ORDER BY ts", "'a',100 | 'a',100 | 'c',300"},
		{"SELECT t.k, w FROM t INNER ANY JOIN r ON t.k == r.k ORDER BY ts", "'a',100 | 'c',300"},
		{"SELECT t.k, w FROM t LEFT JOIN r ON t.k == r.k WHERE t.k == 'a' ORDER BY ts, w", "'a',100 | 'a',101 | 'a',100 | 'a',101"},
		{"SELECT t.k, w FROM t JOIN r ON t.k == r.k AND t.s == 'x' AND r.w == 100", ""}, // error: non-equi/constant
		{"SELECT a.k, b.w FROM (SELECT k FROM t WHERE ts < 25) as a GLOBAL ANY LEFT JOIN (SELECT k, w FROM r) as b ON a.k == b.k ORDER BY a.k", "'a',100 | 'a',100 | 'b',0"},
		{"SELECT k, w FROM t ANY LEFT JOIN (SELECT k, w FROM r WHERE 0) as e ON t.k == e.k WHERE ts == 10", "'a',<zero>"},
		// array join
		{"SELECT id, x FROM arr ARRAY JOIN xs as x", "1,'p' | 1,'q' | 3,'r'"},
		{"SELECT id, xs FROM arr array JOIN xs", "1,'p' | 1,'q' | 3,'r'"},
		{"SELECT id, x FROM arr LEFT ARRAY JOIN xs as x", "1,'p' | 1,'q' | 2,<zero> | 3,'r'"},
		{"SELECT y.1, y.2 FROM (SELECT groupArray((k, v)) as g FROM t WHERE v > 4) array JOIN g as y", "'b',5 | 'b',7"},
		{"SELECT key FROM (SELECT '{\"a\":\"1\",\"b\":\"2\"}' as labels) ARRAY JOIN JSONExtractKeysAndValues(labels, 'String') as pairs WHERE pairs.2 == '2' AND (pairs.1 as key) != ''", "'b'"},
		// union / intersect / distinct / limit
		{"SELECT k FROM t WHERE v < 2 UNION ALL SELECT k FROM r WHERE w > 300", "'a' | 'd'"},
		{"SELECT DISTINCT k FROM t ORDER BY k DESC LIMIT 1 OFFSET 1", "'b'"},
		{"SELECT k FROM t INTERSECT SELECT k FROM r", "'a' | 'a' | 'c'"},
		{"SELECT k FROM t WHERE v < 2 UNION ALL SELECT k FROM t INTERSECT SELECT k FROM r WHERE w > 200", "'a' | 'c'"},
		{"SELECT * FROM (SELECT '_1' as prefix, count() as _count FROM t UNION ALL SELECT '_2' as prefix, count() as _count FROM r)", "'_1',5 | '_2',4"},
		{"SELECT ts FROM t ORDER BY k asc, ts desc LIMIT 3", "20 | 10 | 30"},
		{"SELECT ts FROM t_dist ORDER BY ts LIMIT 1, 2", "10 | 20"},
		{"SELECT ts FROM `db`.t_dist PREWHERE ts > 5 WHERE ts < 30 ORDER BY ts SETTINGS max_threads=1 ", "10 | 20"},
		// scalar subquery, with
		{"SELECT (SELECT max(ts) FROM t) - ts as d FROM t ORDER BY d LIMIT 2", "0 | 10"},
		{"WITH a as (SELECT k, v FROM t WHERE v > 1), b as (SELECT k, sum(v) as s FROM a GROUP BY k) SELECT s FROM b ORDER BY s", "3 | 12"},
		{"SELECT (select groupArray(k) from r) as ks, (select count() from t) as n", "['a','a','c','d'],5"},
		// NULL handling in filters and ordering
		{"SELECT k FROM t WHERE v > 0 OR v <= 0 ORDER BY ts", "'b' | 'a' | 'a' | 'b'"},
		{"SELECT v FROM t ORDER BY v DESC", "7 | 5 | 3 | 1 | NULL"},
		{"SELECT v FROM t ORDER BY v ASC", "1 | 3 | 5 | 7 | NULL"},
		{"SELECT toFloat64OrNull(s) IS NOT NULL, isNotNull(toFloat64OrNull(s)) == 1 FROM t LIMIT 1", "0,0"},
	}
	for _, c := range cases {
		res, err := db.Query(c.sql)
		if c.want == "" && err != nil {
			continue
		}
		if err != nil {
			t.Errorf("%s: %v", c.sql, err)
			continue
		}
		if got := rowsString(res); got != c.want {
			t.Errorf("%s\n  got  %s\n  want %s", c.sql, got, c.want)
		}
	}
	rejects := []struct {
		sql  string
		kind error
	}{
		{"SELECT k, v FROM t GROUP BY k", ErrExec},                             // NOT_AN_AGGREGATE
		{"SELECT key as key FROM (SELECT 'a' as key, 1 as x) GROUP BY x", ErrExec},
		{"SELECT k FROM t WHERE sum(v) > 1", ErrExec},                          // aggregate in WHERE
		{"SELECT any(v) as v FROM t WHERE v > 1", ErrExec},                     // alias with aggregate used in WHERE
		{"SELECT sum(sum(v)) FROM t", ErrExec},                                 // nested aggregate
		{"SELECT v as x, s as x FROM t", ErrExec},                              // two expressions, one alias
		{"SELECT nosuch FROM t", ErrExec}, {"SELECT 1 FROM nosuch", ErrExec}, {"SELECT q.k FROM t", ErrExec},
		{"WITH a as (SELECT 1 FROM a) SELECT 1 FROM a", ErrExec},               // a definition does not see itself
		{"SELECT k FROM t WHERE (k) == ('a') and ()", ErrSyntax},
		{"SELECT k FROM t WHERE !(k == 'a')", ErrSyntax},
		{"SELECT 'abc", ErrSyntax}, {"SELECT 1 FROM", ErrSyntax}, {"SELECT", ErrSyntax}, {"SELECT 1 2", ErrSyntax},
		{"SELECT ts FROM t HAVING ts > 1", ErrUnsupported},
		{"SELECT k FROM t JOIN r USING (k)", ErrUnsupported},
		{"SELECT k FROM t JOIN r ON t.k == r.k AND t.ts > r.w", ErrUnsupported},
		{"SELECT k FROM t LIMIT 1 BY k", ErrUnsupported},
		{"SELECT k FROM t WHERE v > (SELECT max(w) FROM r WHERE r.k == t.k)", ErrExec}, // correlated: inner sees no t
	}
	for _, c := range rejects {
		if _, err := db.Query(c.sql); !errors.Is(err, c.kind) {
			t.Errorf("%s: expected %v, got %v", c.sql, c.kind, err)
		}
	}
}

func TestScanStats(t *testing.T) {
	db := testDB()
	res, err := db.Query("WITH f as (SELECT k FROM r WHERE w >= 300) SELECT t.k FROM t_dist as t ANY LEFT JOIN r ON t.k == r.k PREWHERE ts >= 10 WHERE ts < 40 AND t.k IN (f)")
	if err != nil {
		t.Fatal(err)
	}
	got := map[string]ScanStat{}
	for _, s := range res.Scans {
		got[s.Table+"/"+fmt.Sprint(s.Filtered)] = s
	}
	if s := got["t/true"]; s.Offered != 5 || s.Admitted != 0 || s.Alias != "t" || s.Ref != "t_dist" {
		t.Errorf("t scan: %+v", s)
	}
	if s := got["r/true"]; s.Offered != 4 || s.Admitted != 2 || fmt.Sprint(s.AdmittedRows) != "[2 3]" {
		t.Errorf("r filtered scan: %+v", s)
	}
	if s := got["r/false"]; s.Offered != 4 || s.Admitted != 4 {
		t.Errorf("r join scan: %+v", s)
	}
	res, err = db.Query("SELECT id FROM arr ARRAY JOIN xs as x WHERE x != 'q'")
	if err != nil || len(res.Scans) != 1 || res.Scans[0].Admitted != 2 || fmt.Sprint(res.Scans[0].AdmittedRows) != "[0 2]" {
		t.Errorf("array join scan: %+v %v", res, err)
	}
}

// Round trip: the canonical printing of a parsed statement parses to the same canonical
// printing, and gives the same result.
func TestRapidParsePrintRoundTrip(t *testing.T) {
	db := testDB()
	exprs := []string{"k", "v", "ts", "v + 1", "intDiv(ts, 20) * 20", "k == 'a'", "s IN ('x', 'y')", "v IS NOT NULL", "lower(k)", "-ts", "(k, s)",
		"[v, 1.5]", "if(v > 2, 'hi', 'lo')", "k || s", "toFloat64OrNull(s)", "match(s, 'x|y')", "like(k, '%a%')", "ts % 7", "v / 2", "NOT (k == 'b')", "length(k) + 1"}
	rapid.Check(t, func(rt *rapid.T) {
		n := rapid.IntRange(1, 3).Draw(rt, "n")
		var cols []string
		for i := 0; i < n; i++ {
			cols = append(cols, rapid.SampledFrom(exprs).Draw(rt, "e")+fmt.Sprintf(" as c%d", i))
		}
		sql := "SELECT " + strings.Join(cols, ", ") + " FROM t"
		if rapid.Bool().Draw(rt, "where") {
			sql += " WHERE " + rapid.SampledFrom([]string{"v > 1", "k != 'c' and ts < 35", "s == 'x' or v >= 5"}).Draw(rt, "w")
		}
		sql += " ORDER BY ts"
		if rapid.Bool().Draw(rt, "desc") {
			sql += " desc"
		}
		if rapid.Bool().Draw(rt, "limit") {
			sql += fmt.Sprintf(" LIMIT %d", rapid.IntRange(0, 4).Draw(rt, "l"))
		}
		q1, err := Parse(sql)
		if err != nil {
			rt.Fatalf("%s: %v", sql, err)
		}
		p1 := q1.String()
		q2, err := Parse(p1)
		if err != nil {
			rt.Fatalf("reparse %s: %v", p1, err)
		}
		if p2 := q2.String(); p1 != p2 {
			rt.Fatalf("print not stable:\n%s\n%s", p1, p2)
		}
		r1, err1 := db.Exec(q1)
		r2, err2 := db.Exec(q2)
		if (err1 == nil) != (err2 == nil) {
			rt.Fatalf("%s: %v vs %v", sql, err1, err2)
		}
		if err1 == nil && rowsString(r1) != rowsString(r2) {
			rt.Fatalf("%s: results differ", sql)
		}
	})
}

func TestQuantileInterpolation(t *testing.T) {
	// ReservoirSampler::quantileInterpolated on [1..10]: level 0.9 -> index 8.1 -> 9.1
	rows := [][]any{}
	for i := 10; i >= 1; i-- {
		rows = append(rows, []any{float64(i)})
	}
	db := NewDB()
	db.AddTable("q", []string{"v"}, rows)
	v, err := evalOne(t, db, "quantile(0.9)(v) FROM q")
	if err != nil || math.Abs(v.(float64)-9.1) > 1e-9 {
		t.Fatalf("%v %v", v, err)
	}
}

// REQUESTS.md #1 (b-c11): aggregates of a Nullable argument that consumed no value are NULL.
func TestNullableAggregates(t *testing.T) {
	db := NewDB()
	db.AddTable("t", []string{"k", "v"}, [][]any{{"b", "1"}})
	for _, c := range []struct{ sql, want string }{
		{"SELECT anyIf(toFloat64OrNull(v), k == 'a') AS x, isNull(x) FROM t", "NULL,1"},
		{"SELECT minIf(x, isNotNull(x)) FROM (SELECT toFloat64OrNull('z') AS x)", "NULL"},
		{"SELECT min(toFloat64OrNull(v)), max(toFloat64OrNull(v)), sum(toFloat64OrNull(v)), avg(toFloat64OrNull(v)) FROM t WHERE k == 'a'", "NULL,NULL,NULL,NULL"},
		{"SELECT count(toFloat64OrNull(v)), groupArray(toFloat64OrNull(v)) FROM t WHERE k == 'a'", "0,[]"},
		{"SELECT sum(toFloat64OrZero(v)), avg(toFloat64OrZero(v)) FROM t WHERE k == 'a'", "0,nan"},
		{"SELECT sumIf(agg_val, isNotNull(agg_val)) FROM (SELECT anyIf(toFloat64OrNull(v), k == 'a') as agg_val FROM t GROUP BY k)", "NULL"},
		{"SELECT sumIf(agg_val, isNotNull(agg_val)) != 5 FROM (SELECT anyIf(toFloat64OrNull(v), k == 'a') as agg_val FROM t GROUP BY k)", "NULL"},
		{"SELECT anyIf(toFloat64OrNull(v), k == 'b') FROM t", "1"},
	} {
		res, err := db.Query(c.sql)
		if err != nil {
			t.Errorf("%s: %v", c.sql, err)
			continue
		}
		if got := rowsString(res); got != c.want {
			t.Errorf("%s\n  got  %s\n  want %s", c.sql, got, c.want)
		}
	}
}

// Functions that have both an ordinary call form and an SQL special syntax (docs: String
// functions / Functions for searching in strings / Type conversion: CAST).
func TestSpecialSyntaxFunctions(t *testing.T) {
	db := NewDB()
	for _, c := range []struct{ expr, want string }{
		// position
		{"position('Hello, world!', '!')", "13"}, {"position('Hello, world!', 'o', 1)", "5"}, {"position('Hello, world!', 'o', 7)", "9"},
		{"position('abc', 'zz')", "0"}, {"POSITION('bar' IN 'foobar')", "4"}, {"position('l' IN 'Hello')", "3"}, {"Position('Hello', 'l')", "3"},
		{"position('abc', '')", "1"}, {"position('abc', '', 4)", "4"}, {"position('abc', '', 5)", "0"}, {"position('abc', 'c', 10)", "0"},
		{"position('val ERROR x', 'ERROR') > 0", "1"}, {"position('Привет', 'т')", "11"}, {"positionUTF8('Привет', 'т')", "6"},
		{"positionCaseInsensitive('Hello', 'LL')", "3"}, {"position('Hello', 'LL')", "0"}, {"positionCaseInsensitiveUTF8('ПРИВЕТ', 'вет')", "4"},
		// substring / substr / mid
		{"substring('database', 5)", "'base'"}, {"substr('database', 5, 1)", "'b'"}, {"mid('database', 1, 4)", "'data'"}, {"SUBSTRING('database' FROM 5 FOR 2)", "'ba'"},
		{"SUBSTRING('database' FROM 5)", "'base'"}, {"substring('abc', 0)", "''"}, {"substring('abc', -2)", "'bc'"}, {"substring('abc', -2, 1)", "'b'"}, {"substring('abc', 2, 100)", "'bc'"},
		{"substring('abc', 10)", "''"}, {"substringUTF8('Привет', 2, 3)", "'рив'"}, {"SUBSTR('abc', 2)", "'bc'"},
		// left / right
		{"left('Hello', 3)", "'Hel'"}, {"left('Hello', -3)", "'He'"}, {"left('Hello', 0)", "''"}, {"left('Hello', 10)", "'Hello'"},
		{"right('Hello', 3)", "'llo'"}, {"right('Hello', -3)", "'lo'"}, {"leftUTF8('Привет', 4)", "'Прив'"}, {"rightUTF8('Привет', 2)", "'ет'"}, {"LEFT('abc', 1)", "'a'"},
		// trim
		{"trimBoth('     Hello, world!     ')", "'Hello, world!'"}, {"trimLeft('  x ')", "'x '"}, {"trimRight('  x ')", "'  x'"}, {"trim('  x ')", "'x'"}, {"ltrim('  x')", "'x'"}, {"rtrim('x  ')", "'x'"},
		{"trim(BOTH ' ()' FROM '(   Hello, world!   )')", "'Hello, world!'"}, {"trim(LEADING 'x' FROM 'xxaxx')", "'axx'"}, {"TRIM(TRAILING 'x' FROM 'xxaxx')", "'xxa'"}, {"trimBoth('\\tx')", "'\\x09x'"},
		// CAST
		{"CAST('42' AS UInt64) + 1", "43"}, {"CAST(42, 'String')", "'42'"}, {"cast(1.9 AS UInt8)", "1"}, {"CAST('2023-11-14' AS Date)", "2023-11-14"}, {"CAST(3 AS Float64) / 2", "1.5"},
		// extract (regexp)
		{"extract('number: 1, number: 2', '\\\\d+')", "'1'"}, {"extract('key=val', '(\\\\w+)=')", "'key'"}, {"extract('abc', 'x')", "''"},
		// misc
		{"startsWith('Spider-Man', 'Spi')", "1"}, {"endsWith('Spider-Man', 'Spi')", "0"}, {"replaceAll('Hello, Hello', 'Hello', 'Bye')", "'Bye, Bye'"}, {"replaceOne('Hello, Hello', 'Hello', 'Bye')", "'Bye, Hello'"}, {"replace('aa', 'a', 'b')", "'bb'"},
	} {
		v, err := evalOne(t, db, c.expr)
		if err != nil {
			t.Errorf("%s: %v", c.expr, err)
			continue
		}
		if got := show(v); got != c.want {
			t.Errorf("%s = %s, want %s", c.expr, got, c.want)
		}
	}
	for _, expr := range []string{"EXTRACT(YEAR FROM toDate('2023-11-14'))", "locate('a', 'b')", "DATE_ADD(DAY, 1, toDate('2023-11-14'))", "EXISTS(SELECT 1)", "substring('abc', 1, -1)", "CAST(1 AS Nullable(String))"} {
		if _, err := evalOne(t, db, expr); !errors.Is(err, ErrUnsupported) {
			t.Errorf("%s: expected ErrUnsupported, got %v", expr, err)
		}
	}
	for _, expr := range []string{"position('a')", "position(1, 'a')", "substring('a')", "CAST(1)", "left('a')", "CAST('x' AS UInt8)"} {
		if _, err := evalOne(t, db, expr); !errors.Is(err, ErrExec) && !errors.Is(err, ErrSyntax) {
			t.Errorf("%s: expected rejection, got %v", expr, err)
		}
	}
	// in a statement, as a planner would render it
	db2 := testDB()
	res, err := db2.Query("SELECT k, position(s, 'y') as p FROM t WHERE position(s,'x') == 0 AND POSITION('y' IN s) > 0 ORDER BY ts")
	if err != nil || rowsString(res) != "'a',1" {
		t.Errorf("position in WHERE: %v %v", res, err)
	}
}

// DB.NewAnalyzer: HAVING without GROUP BY / aggregates is a row filter that sees aliases.
func TestNewAnalyzerHaving(t *testing.T) {
	db := testDB()
	q := "SELECT y.1 as k, y.2 as value FROM (SELECT groupArray((k, v)) as g FROM t WHERE v > 0) array JOIN g as y HAVING (value) > (2.000000) ORDER BY value"
	if _, err := db.Query(q); !errors.Is(err, ErrUnsupported) {
		t.Fatalf("default: expected ErrUnsupported, got %v", err)
	}
	db.NewAnalyzer = true
	res, err := db.Query(q)
	if err != nil || rowsString(res) != "'a',3 | 'b',5 | 'b',7" {
		t.Fatalf("NewAnalyzer: %v %v", res, err)
	}
	// with aggregation nothing changes
	res, err = db.Query("SELECT k FROM t GROUP BY k HAVING sum(v) > 4 ORDER BY k")
	if err != nil || rowsString(res) != "'b'" {
		t.Fatalf("%v %v", res, err)
	}
}

// REQUESTS.md b-c13 #1: string constants of an IN list are converted to Date when the left
// side is a Date; other Date/String mixes are ErrUnsupported, never a silent "no match".
func TestDateInList(t *testing.T) {
	db := NewDB()
	d := func(s string) Date { x, _ := ParseDate(s); return x }
	db.AddTable("g", []string{"date", "key", "n"}, [][]any{{d("2024-01-15"), "a", uint64(1)}, {d("2024-01-16"), "b", uint64(2)}, {d("2024-01-17"), "c", uint64(3)}})
	db.AddTable("sd", []string{"s"}, [][]any{{"2024-01-15"}})
	for _, c := range []struct{ sql, want string }{
		{"SELECT count() FROM g WHERE date IN ('2024-01-15', '2024-01-16')", "2"},
		{"SELECT count() FROM g WHERE date NOT IN ('2024-01-15', '2024-01-16')", "1"},
		{"SELECT count() FROM g WHERE date IN ('2024-01-15')", "1"},
		{"SELECT count() FROM g WHERE date IN (toDate('2024-01-15'), toDate('2024-01-16'))", "2"},
		{"SELECT count() FROM g WHERE date IN (toDate('2024-01-15'), '2024-01-17')", "2"},
		{"SELECT count() FROM g WHERE (date, key) IN (('2024-01-15', 'a'), ('2024-01-16', 'zz'))", "1"},
		{"SELECT count() FROM g WHERE (key, date) IN (('c', '2024-01-17'))", "1"},
		{"SELECT count() FROM g WHERE (key, n) IN ('c', 3)", "1"}, {"SELECT (1, 2) IN (1, 2), (1, 2) IN ((1, 2), (3, 4)), (1, 3) IN ((1, 2))", "1,1,0"},
		{"SELECT count() FROM g WHERE date IN (SELECT date FROM g WHERE n > 1)", "2"},
		{"SELECT count() FROM g WHERE date >= '2024-01-16' AND toString(date) IN ('2024-01-16')", "1"},
		{"SELECT count() FROM g WHERE key IN ('a', 'b')", "2"},
	} {
		res, err := db.Query(c.sql)
		if err != nil {
			t.Errorf("%s: %v", c.sql, err)
			continue
		}
		if got := rowsString(res); got != c.want {
			t.Errorf("%s: got %s want %s", c.sql, got, c.want)
		}
	}
	if _, err := db.Query("SELECT count() FROM g WHERE date IN ('2024-01-15', 'garbage')"); !errors.Is(err, ErrExec) {
		t.Errorf("unparsable date constant: %v", err)
	}
	for _, q := range []string{
		"SELECT count() FROM g WHERE date IN (SELECT s FROM sd)",
		"SELECT count() FROM g WHERE date IN (sd)",
		"SELECT count() FROM sd WHERE s IN (SELECT date FROM g)",
		"SELECT count() FROM g WHERE date IN ('2024-01-15 00:00:00')",
	} {
		if _, err := db.Query(q); !errors.Is(err, ErrUnsupported) {
			t.Errorf("%s: expected ErrUnsupported, got %v", q, err)
		}
	}
}

package qcorpus

import (
	"context"
	"fmt"
	"time"

	v1 "github.com/metrico/qryn/reader/prof"
	"github.com/prometheus/prometheus/model/labels"
	"github.com/prometheus/prometheus/storage"
)

// LogQLQueries covers every LogQL planner: selectors, line filters, label filters,
// json/regexp parsers, drop, unwrap, range aggregations, sum by/without, topk, comparison.
var LogQLQueries = []string{
	`{a="b"}`,
	`{a="b", c!="d"}`,
	`{a=~"b.*", c!~"d|e"}`,
	`{a="b"} |= "x"`,
	`{a="b"} != "x" |~ "y.z" !~ "w+"`,
	`{a="b"} |~ "(?i)lit"`,
	`{a="b"} |~ "lit"`,
	`{a="b"} !~ "lit"`,
	`{a="b"} | c="d"`,
	`{a="b"} | c!="d"`,
	`{a="b"} | c=~"d.*"`,
	`{a="b"} | c!~"d.*"`,
	`{a="b"} | c="d" and e="f"`,
	`{a="b"} | c="d" or e="f"`,
	`{a="b"} | (c="d" or e="f") and g="h"`,
	`{a="b"} | json`,
	`{a="b"} | json | lvl="info"`,
	`{a="b"} | json x="y.z"`,
	`{a="b"} | json x="y.z", w="u[0]"`,
	`{a="b"} | json x="y" | x="1"`,
	`{a="b"} | json x="y" | x > 1`,
	`{a="b"} | json x="y" | x >= 1.5 and x < 3`,
	`{a="b"} | json x="y" | x == 2`,
	`{a="b"} | json x="y" | x != 2`,
	`{a="b"} | json x="y" | x <= 2`,
	`{a="b"} | logfmt`,
	`{a="b"} | logfmt | lvl="info"`,
	`{a="b"} | regexp "(?P<x>[0-9]+)"`,
	`{a="b"} | regexp "(?P<x>[0-9]+) (?P<y>\\w+)" | x="1"`,
	`{a="b"} | drop c`,
	`{a="b"} | drop c, d`,
	`{a="b"} | drop c="x"`,
	`{a="b"} | json x="y" | drop x`,
	`{a="b"} | json x="y" | drop x="1", a`,
	`{a="b"} | line_format "{{.a}} x"`,
	`{a="b"} | label_format c=a`,
	`{a="b"} | label_format c="{{.a}}x"`,
	`{a="b"} | unwrap_value`,
	`rate({a="b"}[1m])`,
	`rate({a="b"}[5s])`,
	`rate({a="b"} |= "x" [5s])`,
	`rate({a="b"} | c="d" [5s])`,
	`rate({a="b"} | c="d" [1m])`,
	`count_over_time({a="b"}[1m])`,
	`count_over_time({a="b"}[5s])`,
	`bytes_rate({a="b"}[5s])`,
	`bytes_over_time({a="b"}[5s])`,
	`bytes_rate({a="b"}[1m])`,
	`bytes_over_time({a="b"}[1m])`,
	`absent_over_time({a="b"}[5s])`,
	`sum(rate({a="b"}[5s]))`,
	`sum by (a) (rate({a="b"}[5s]))`,
	`sum without (a) (rate({a="b"}[5s]))`,
	`sum by (a) (count_over_time({a="b"}[1m]))`,
	`avg by (a) (count_over_time({a="b"}[5s]))`,
	`min by (a) (count_over_time({a="b"}[5s]))`,
	`max by (a) (count_over_time({a="b"}[5s]))`,
	`count by (a) (count_over_time({a="b"}[5s]))`,
	`stddev by (a) (count_over_time({a="b"}[5s]))`,
	`stdvar by (a) (count_over_time({a="b"}[5s]))`,
	`sum by (a) (count_over_time({a="b"} | json x="y" [5s]))`,
	`sum by (x) (count_over_time({a="b"} | json x="y" [5s]))`,
	`sum by (x) (count_over_time({a="b"} | json [5s]))`,
	`sum_over_time({a="b"} | unwrap_value [5s])`,
	`sum_over_time({a="b"} | json x="y" | unwrap x [5s])`,
	`sum_over_time({a="b"} | unwrap c [5s])`,
	`avg_over_time({a="b"} | json x="y" | unwrap x [5s])`,
	`min_over_time({a="b"} | json x="y" | unwrap x [5s])`,
	`max_over_time({a="b"} | json x="y" | unwrap x [5s])`,
	`first_over_time({a="b"} | json x="y" | unwrap x [5s])`,
	`last_over_time({a="b"} | json x="y" | unwrap x [5s])`,
	`stddev_over_time({a="b"} | json x="y" | unwrap x [5s])`,
	`stdvar_over_time({a="b"} | json x="y" | unwrap x [5s])`,
	`rate({a="b"} | json x="y" | unwrap x [5s])`,
	`quantile_over_time(0.5, {a="b"} | json x="y" | unwrap x [5s])`,
	`quantile_over_time(0.9, {a="b"} | unwrap_value [5s]) by (a)`,
	`sum_over_time({a="b"} | json x="y" | unwrap x [5s]) by (a)`,
	`sum_over_time({a="b"} | json | unwrap x [5s]) by (a)`,
	`sum(sum_over_time({a="b"} | json x="y" | unwrap x [10s]) by (a, x)) by (a)`,
	`topk(2, rate({a="b"}[5s]))`,
	`bottomk(2, rate({a="b"}[5s]))`,
	`topk(2, sum by (a) (rate({a="b"}[5s])))`,
	`topk(2, sum_over_time({a="b"} | unwrap_value [5s]))`,
	`rate({a="b"}[5s]) > 1`,
	`rate({a="b"}[5s]) >= 1`,
	`rate({a="b"}[5s]) < 1`,
	`rate({a="b"}[5s]) <= 1`,
	`rate({a="b"}[5s]) == 1`,
	`rate({a="b"}[5s]) != 1`,
	`sum by (a) (rate({a="b"}[5s])) > 1.5`,
	`sum_over_time({a="b"} | unwrap_value [5s]) > 1`,
	`topk(2, rate({a="b"}[5s])) > 1`,
	`sum(sum_over_time({test_id="x_json"}| json | unwrap str_id [10s]) by (test_id, str_id)) by (test_id) > 100`,
	`rate({a="b"} | json x="y" | x="1" | drop a [5s])`,
	`rate({a="b"} | label_format c=a [5s])`,
	`rate({a="b"} | line_format "{{.a}}" [5s])`,
	`sum by (c) (rate({a="b"} | label_format c=a [5s]))`,
	`{a="it's", b="q\"uote", c="back\\slash"} |= "%_\\"`,
}

var TraceQLQueries = []string{
	`{.a="b"}`,
	`{.a!="b"}`,
	`{.a=~"b.*"}`,
	`{.a!~"b.*"}`,
	`{.n>10}`,
	`{.n>=10.5}`,
	`{.n<10}`,
	`{.n<=10}`,
	`{.n=10}`,
	`{.n!=10}`,
	`{span.a="b"}`,
	`{resource.service.name="b"}`,
	`{name="op"}`,
	`{name=~"op.*"}`,
	`{duration>1s}`,
	`{duration>1s && .a="b"}`,
	`{.a="b" && duration<500ms}`,
	`{.a="b" && .c="d"}`,
	`{.a="b" || .c="d"}`,
	`{(.a="b" || .c="d") && .e="f"}`,
	`{.a="b" && .n>10 && name="x"}`,
	`{.a="b"} | count() > 2`,
	`{.a="b"} | count() >= 2`,
	`{.a="b"} | avg(duration) > 1s`,
	`{.a="b"} | max(duration) < 1s`,
	`{.a="b"} | min(duration) = 1s`,
	`{.a="b"} | sum(duration) != 1s`,
	`{.a="b"} && {.c="d"}`,
	`{.a="b"} || {.c="d"}`,
	`{.a=~"admiring" && .f > 10} | count() > 2 || {.a=~"boring" && .f < 10}`,
	`{.a="b"} | select(.c)`,
	`{}`,
	`{.a="it's" && .b="q\"uote\\"}`,
}

type Entry struct {
	Name string
	Run  func(e *Env) ([]Stmt, error)
}

func m(t labels.MatchType, n, v string) *labels.Matcher { return labels.MustNewMatcher(t, n, v) }

// Entries lists every request of the corpus.
func Entries() []Entry {
	var out []Entry
	from, to := int64(1700000000), int64(1700003600)
	tf, tt := time.Unix(from, 0), time.Unix(to, 0)
	for _, q := range LogQLQueries {
		q := q
		out = append(out, Entry{"logql:" + q, func(e *Env) ([]Stmt, error) { return e.LogQL(q, from, to, 5000, 100, false) }})
	}
	for _, q := range []string{`{a="b"}`, `{a="b"} |= "x" | json x="y"`, `rate({a="b"}[1m])`, `sum by (a) (rate({a="b"}[30s]))`} {
		q := q
		out = append(out, Entry{"logql-fwd:" + q, func(e *Env) ([]Stmt, error) { return e.LogQL(q, from, to, 15000, 10, true) }})
		out = append(out, Entry{"logql-instant:" + q, func(e *Env) ([]Stmt, error) { return e.LogQLInstant(q, to, 1000, 10) }})
	}
	out = append(out,
		Entry{"labels", func(e *Env) ([]Stmt, error) { return e.Labels(from*1000, to*1000, 1) }},
		Entry{"labels-metrics", func(e *Env) ([]Stmt, error) { return e.Labels(from*1000, to*1000, 2) }},
		Entry{"values", func(e *Env) ([]Stmt, error) { return e.Values("job", nil, from*1000, to*1000, 1) }},
		Entry{"values-match", func(e *Env) ([]Stmt, error) {
			return e.Values("job", []string{`{a="b"}`, `{c=~"d.*", e!="f"}`}, from*1000, to*1000, 1)
		}},
		Entry{"promvalues-match", func(e *Env) ([]Stmt, error) {
			return e.PromValues("job", []string{`up{a="b"}`, `{__name__=~"x.*", c!~"d"}`}, from*1000, to*1000, 2)
		}},
		Entry{"series", func(e *Env) ([]Stmt, error) {
			return e.Series([]string{`{a="b"}`, `{c=~"d.*", e!="f"}`}, from*1000, to*1000, 1)
		}},
		Entry{"series-one", func(e *Env) ([]Stmt, error) { return e.Series([]string{`{a="b"}`}, from*1000, to*1000, 2) }},
	)
	for _, h := range []storage.SelectHints{
		{Start: from * 1000, End: to * 1000, Step: 1000},
		{Start: from*1000 + 1, End: to * 1000, Step: 15000, Func: "rate", Range: 60000},
		{Start: 1699999995000, End: to * 1000, Step: 15000, Func: "sum_over_time", Range: 60000},
		{Start: 1699999995000, End: to * 1000, Step: 30000, Func: "", Range: 0},
		{Start: 1699999995000, End: to * 1000, Step: 30000, Func: "avg_over_time", Range: 300000, By: true, Grouping: []string{"a"}},
		{Start: 1699999995000, End: to * 1000, Step: 30000, Func: "sum", Range: 0, By: false, Grouping: []string{"a"}},
		{Start: 1699999995000, End: to * 1000, Step: 30000, Func: "count_over_time", Range: 300000},
		{Start: 1699999995000, End: to * 1000, Step: 30000, Func: "last_over_time", Range: 300000},
		{Start: 1699999995000, End: to * 1000, Step: 30000, Func: "min_over_time", Range: 300000},
		{Start: 1699999995000, End: to * 1000, Step: 30000, Func: "max_over_time", Range: 300000},
	} {
		h := h
		out = append(out, Entry{"promselect:" + h.Func, func(e *Env) ([]Stmt, error) {
			return e.PromSelect(&h, m(labels.MatchEqual, "__name__", "up"), m(labels.MatchNotEqual, "a", "b"),
				m(labels.MatchRegexp, "c", "d.*"), m(labels.MatchNotRegexp, "e", "f|g"))
		}})
		out = append(out, Entry{"promselect1:" + h.Func, func(e *Env) ([]Stmt, error) {
			return e.PromSelect(&h, m(labels.MatchEqual, "__name__", "up"))
		}})
	}
	for _, q := range TraceQLQueries {
		q := q
		out = append(out, Entry{"traceql:" + q, func(e *Env) ([]Stmt, error) { return e.TraceQL(q, 20, tf, tt) }})
	}
	for _, q := range []string{``, `{}`, `{.a="b"}`, `{.a="b" && .c=~"d"}`, `{name="x"}`} {
		q := q
		out = append(out, Entry{"tagsv2:" + q, func(e *Env) ([]Stmt, error) { return e.TempoTagsV2(q, tf, tt, 100) }})
		out = append(out, Entry{"valuesv2:" + q, func(e *Env) ([]Stmt, error) { return e.TempoValuesV2(".k", q, tf, tt, 100) }})
		out = append(out, Entry{"valuesv2-name:" + q, func(e *Env) ([]Stmt, error) { return e.TempoValuesV2("name", q, tf, tt, 100) }})
	}
	out = append(out,
		Entry{"tempotags", func(e *Env) ([]Stmt, error) { return e.TempoTags() }},
		Entry{"tempovalues", func(e *Env) ([]Stmt, error) { return e.TempoValues("service.name") }},
		Entry{"tempotrace", func(e *Env) ([]Stmt, error) {
			return e.TempoTrace([]byte("0123456789abcdef0123456789abcdef"), from*1e9, to*1e9)
		}},
		Entry{"tempotrace-notime", func(e *Env) ([]Stmt, error) {
			return e.TempoTrace([]byte("0123456789abcdef0123456789abcdef"), 0, 0)
		}},
		Entry{"temposearch-none", func(e *Env) ([]Stmt, error) { return e.TempoSearch("", 0, 0, 20, from*1e9, to*1e9) }},
		Entry{"temposearch-tags", func(e *Env) ([]Stmt, error) {
			return e.TempoSearch(`a=b c="d e" name=op service.name=svc`, 1000000, 5000000000, 20, from*1e9, to*1e9)
		}},
		Entry{"temposearch-dur", func(e *Env) ([]Stmt, error) { return e.TempoSearch(``, 1000000, 5000000000, 20, 0, 0) }},
	)
	ctx := context.Background()
	sel := `{service_name="svc", a!="b", c=~"d.*", e!~"f"}`
	tid := "process_cpu:cpu:nanoseconds:cpu:nanoseconds"
	out = append(out,
		Entry{"prof-types", func(e *Env) ([]Stmt, error) { _, err := e.Prof().ProfileTypes(ctx, tf, tt); return e.Take("prof-types"), err }},
		Entry{"prof-labelnames", func(e *Env) ([]Stmt, error) {
			_, err := e.Prof().LabelNames(ctx, []string{sel}, tf, tt)
			return e.Take("prof-labelnames"), err
		}},
		Entry{"prof-labelnames-all", func(e *Env) ([]Stmt, error) {
			_, err := e.Prof().LabelNames(ctx, nil, tf, tt)
			return e.Take("prof-labelnames-all"), err
		}},
		Entry{"prof-labelvalues", func(e *Env) ([]Stmt, error) {
			_, err := e.Prof().LabelValues(ctx, []string{sel}, "pod", tf, tt)
			return e.Take("prof-labelvalues"), err
		}},
		Entry{"prof-labelvalues-all", func(e *Env) ([]Stmt, error) {
			_, err := e.Prof().LabelValues(ctx, nil, "pod", tf, tt)
			return e.Take("prof-labelvalues-all"), err
		}},
		Entry{"prof-merge", func(e *Env) ([]Stmt, error) {
			_, err := e.Prof().MergeStackTraces(ctx, sel, tid, tf, tt)
			return e.Take("prof-merge"), err
		}},
		Entry{"prof-merge-empty", func(e *Env) ([]Stmt, error) {
			_, err := e.Prof().MergeStackTraces(ctx, `{}`, tid, tf, tt)
			return e.Take("prof-merge-empty"), err
		}},
		Entry{"prof-selectseries", func(e *Env) ([]Stmt, error) {
			_, err := e.Prof().SelectSeries(ctx, sel, tid, []string{"pod"}, 0, 15, tf, tt)
			return e.Take("prof-selectseries"), err
		}},
		Entry{"prof-selectseries-avg", func(e *Env) ([]Stmt, error) {
			_, err := e.Prof().SelectSeries(ctx, sel, tid, nil, 1, 15, tf, tt)
			return e.Take("prof-selectseries-avg"), err
		}},
		Entry{"prof-mergeprofiles", func(e *Env) ([]Stmt, error) {
			_, err := e.Prof().MergeProfiles(ctx, sel, tid, tf, tt)
			return e.Take("prof-mergeprofiles"), err
		}},
		Entry{"prof-series", func(e *Env) ([]Stmt, error) {
			_, err := e.Prof().TimeSeries(ctx, []string{sel, `{x="y"}`}, []string{"pod"}, tf, tt)
			return e.Take("prof-series"), err
		}},
		Entry{"prof-series-all", func(e *Env) ([]Stmt, error) {
			_, err := e.Prof().TimeSeries(ctx, nil, nil, tf, tt)
			return e.Take("prof-series-all"), err
		}},
		Entry{"prof-stats", func(e *Env) ([]Stmt, error) { _, err := e.Prof().ProfileStats(ctx); return e.Take("prof-stats"), err }},
		Entry{"prof-analyze", func(e *Env) ([]Stmt, error) {
			_, err := e.Prof().AnalyzeQuery(ctx, tid+sel, tf, tt)
			return e.Take("prof-analyze"), err
		}},
		Entry{"prof-diff", func(e *Env) ([]Stmt, error) {
			_, err := e.Prof().RenderDiff(ctx, tid+sel, tid+`{x="y"}`, tf, tt, tf, tt)
			return e.Take("prof-diff"), err
		}},
	)
	_ = v1.PlanLabelNames
	// a request that panics inside qryn (C12's business) must not take the corpus down
	for i := range out {
		run := out[i].Run
		out[i].Run = func(e *Env) (st []Stmt, err error) {
			defer func() {
				if r := recover(); r != nil {
					st, err = e.Take("panic"), fmt.Errorf("panic: %v", r)
				}
			}()
			return run(e)
		}
	}
	return out
}

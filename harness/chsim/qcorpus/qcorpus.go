// Package qcorpus renders REAL SQL statements by driving qryn's reader services and
// planners over a recording fakesql database. It is used by chsim's corpus test (all
// rendered statements must parse and execute) and is available to property checks that
// need "the SQL qryn sends for request X".
package qcorpus

import (
	"context"
	"database/sql/driver"
	"fmt"
	"time"

	"github.com/metrico/cloki-config/config"
	"github.com/metrico/qryn/reader/model"
	"github.com/metrico/qryn/reader/service"
	"github.com/prometheus/prometheus/model/labels"
	"github.com/prometheus/prometheus/storage"

	"qrynverif/fakesql"
)

// Stmt is one SQL statement that reached the database, with the request that caused it.
type Stmt struct {
	Origin string // e.g. "logql:{a=\"b\"} |= \"x\""
	SQL    string
}

// Env is a set of reader services over one recording fake database.
type Env struct {
	DB      *fakesql.DB
	Cluster bool
	SD      model.ServiceData
	// Answer, if set, answers every non-version statement (default: empty result).
	Answer func(q string) (*fakesql.Result, error)
}

// NewEnv creates the services; cluster selects the "_dist"/INLINE_WITH rendering.
func NewEnv(cluster bool) *Env {
	e := &Env{Cluster: cluster}
	e.DB = fakesql.New(func(ctx context.Context, q string, args []driver.NamedValue) (*fakesql.Result, error) {
		if fakesql.IsVersionQuery(q) {
			return fakesql.AnswerVersion(q), nil
		}
		if e.Answer != nil {
			return e.Answer(q)
		}
		return &fakesql.Result{FailAfter: -1}, nil
	})
	cfg := &config.ClokiBaseDataBase{Name: "qryn"}
	if cluster {
		cfg.ClusterName = "c1"
	}
	e.SD = model.ServiceData{Session: e.DB.Registry(cfg)}
	return e
}

func (e *Env) Close() { e.DB.Close() }

// take returns the non-auxiliary statements logged since the last call.
func (e *Env) take(origin string) []Stmt {
	var out []Stmt
	for _, q := range e.DB.Log() {
		if fakesql.IsVersionQuery(q) {
			continue
		}
		out = append(out, Stmt{Origin: origin, SQL: q})
	}
	e.DB.ResetLog()
	return out
}

func drain[T any](ch chan T) {
	if ch == nil {
		return
	}
	for range ch {
	}
}

// LogQL runs a LogQL query_range request (from/to in seconds, step in ms).
func (e *Env) LogQL(q string, fromS, toS int64, stepMs int64, limit int64, forward bool) ([]Stmt, error) {
	svc := service.NewQueryRangeService(&e.SD)
	ctx, cancel := context.WithTimeout(context.Background(), 20*time.Second)
	defer cancel()
	ch, err := svc.QueryRange(ctx, q, fromS*1e9, toS*1e9, stepMs, limit, forward)
	if err == nil {
		drain(ch)
	}
	return e.take("logql:" + q), err
}

// LogQLInstant runs an instant query.
func (e *Env) LogQLInstant(q string, tS int64, stepMs int64, limit int64) ([]Stmt, error) {
	svc := service.NewQueryRangeService(&e.SD)
	ctx, cancel := context.WithTimeout(context.Background(), 20*time.Second)
	defer cancel()
	ch, err := svc.QueryInstant(ctx, q, tS*1e9, stepMs, limit)
	if err == nil {
		drain(ch)
	}
	return e.take("logql-instant:" + q), err
}

// Labels / Values / Series of the Loki and Prometheus label APIs.
func (e *Env) Labels(fromMs, toMs int64, tp uint16) ([]Stmt, error) {
	svc := service.NewQueryLabelsService(&e.SD)
	ch, err := svc.Labels(context.Background(), fromMs, toMs, tp)
	if err == nil {
		drain(ch)
	}
	return e.take("labels"), err
}

func (e *Env) Values(label string, match []string, fromMs, toMs int64, tp uint16) ([]Stmt, error) {
	svc := service.NewQueryLabelsService(&e.SD)
	ch, err := svc.Values(context.Background(), label, match, fromMs, toMs, tp)
	if err == nil {
		drain(ch)
	}
	return e.take(fmt.Sprintf("values:%s:%q", label, match)), err
}

func (e *Env) PromValues(label string, match []string, fromMs, toMs int64, tp uint16) ([]Stmt, error) {
	svc := service.NewQueryLabelsService(&e.SD)
	ch, err := svc.PromValues(context.Background(), label, match, fromMs, toMs, tp)
	if err == nil {
		drain(ch)
	}
	return e.take(fmt.Sprintf("promvalues:%s:%q", label, match)), err
}

func (e *Env) Series(match []string, fromMs, toMs int64, tp uint16) ([]Stmt, error) {
	svc := service.NewQueryLabelsService(&e.SD)
	ch, err := svc.Series(context.Background(), match, fromMs, toMs, tp)
	if err == nil {
		drain(ch)
	}
	return e.take(fmt.Sprintf("series:%q", match)), err
}

// PromSelect runs CLokiQuerier.Select (the storage.Querier the PromQL engine calls).
func (e *Env) PromSelect(hints *storage.SelectHints, matchers ...*labels.Matcher) ([]Stmt, error) {
	q := (&service.CLokiQueriable{ServiceData: e.SD}).SetOidAndDB(context.Background())
	qr, err := q.Querier(context.Background(), hints.Start, hints.End)
	if err != nil {
		return nil, err
	}
	set := qr.Select(false, hints, matchers...)
	for set.Next() {
	}
	return e.take(fmt.Sprintf("promselect:%v:%+v", matchers, *hints)), set.Err()
}

// Tempo.
func (e *Env) TempoService() model.ITempoService { return service.NewTempoService(e.SD) }

func (e *Env) TraceQL(q string, limit int, from, to time.Time) ([]Stmt, error) {
	ch, err := e.TempoService().SearchTraceQL(context.Background(), q, limit, from, to)
	if err == nil {
		drain(ch)
	}
	return e.take("traceql:" + q), err
}

func (e *Env) TempoSearch(tags string, minDurNS, maxDurNS int64, limit int, fromNS, toNS int64) ([]Stmt, error) {
	ch, err := e.TempoService().Search(context.Background(), tags, minDurNS, maxDurNS, limit, fromNS, toNS)
	if err == nil {
		drain(ch)
	}
	return e.take("temposearch:" + tags), err
}

func (e *Env) TempoTags() ([]Stmt, error) {
	ch, err := e.TempoService().Tags(context.Background())
	if err == nil {
		drain(ch)
	}
	return e.take("tempotags"), err
}

func (e *Env) TempoValues(tag string) ([]Stmt, error) {
	ch, err := e.TempoService().Values(context.Background(), tag)
	if err == nil {
		drain(ch)
	}
	return e.take("tempovalues:" + tag), err
}

func (e *Env) TempoTagsV2(q string, from, to time.Time, limit int) ([]Stmt, error) {
	ch, err := e.TempoService().TagsV2(context.Background(), q, from, to, limit)
	if err == nil {
		drain(ch)
	}
	return e.take("tempotagsv2:" + q), err
}

func (e *Env) TempoValuesV2(key, q string, from, to time.Time, limit int) ([]Stmt, error) {
	ch, err := e.TempoService().ValuesV2(context.Background(), key, q, from, to, limit)
	if err == nil {
		drain(ch)
	}
	return e.take("tempovaluesv2:" + key + ":" + q), err
}

func (e *Env) TempoTrace(traceID []byte, startNS, endNS int64) ([]Stmt, error) {
	ch, err := e.TempoService().Query(context.Background(), startNS, endNS, traceID, false)
	if err == nil {
		drain(ch)
	}
	return e.take("tempotrace:" + string(traceID)), err
}

// Pyroscope.
func (e *Env) Prof() *service.ProfService { return &service.ProfService{DataSession: e.SD.Session} }

// Take exposes the log for calls made directly on Prof()/TempoService().
func (e *Env) Take(origin string) []Stmt { return e.take(origin) }

package chsim

import (
	"strings"
	"unicode/utf8"
)

// String functions that ClickHouse offers both as an ordinary comma call and in an SQL
// special syntax (POSITION(x IN y), SUBSTRING(s FROM o FOR l), TRIM(BOTH c FROM s),
// CAST(x AS T)). The parser maps the special syntax to the same functions. Semantics from
// the docs pages "String functions", "Functions for searching in strings", "Functions for
// replacing in strings".

func registerStringFuncs() {
	// position(haystack, needle[, start_pos]): 1-based BYTE position of the first occurrence
	// at or after start_pos, 0 if absent. An empty needle is found at start_pos (1 by
	// default) as long as start_pos <= length+1 (docs: "position('abc', '', 4) = 4,
	// position('abc', '', 5) = 0"). The UTF8 variants count code points.
	pos := func(fold, utf bool, name string) fnDef {
		return variadic(2, 3, func(a []any) (any, error) {
			h, err := asString(a[0], name)
			if err != nil {
				return nil, err
			}
			n, err := asString(a[1], name)
			if err != nil {
				return nil, err
			}
			start := int64(1)
			if len(a) == 3 {
				if start, err = asInt(a[2], name); err != nil {
					return nil, err
				}
				if start < 1 {
					start = 1
				}
			}
			if fold {
				if utf {
					h, n = foldCase(h), foldCase(n)
				} else {
					h, n = asciiLower(h), asciiLower(n)
				}
			}
			// byte offset of start
			off := int(start - 1)
			if utf {
				off = 0
				for k := int64(1); k < start; k++ {
					if off >= len(h) {
						off = len(h) + 1
						break
					}
					_, w := utf8.DecodeRuneInString(h[off:])
					off += w
				}
			}
			if off > len(h) {
				return uint64(0), nil
			}
			i := strings.Index(h[off:], n)
			if i < 0 {
				return uint64(0), nil
			}
			if utf {
				return uint64(utf8.RuneCountInString(h[:off+i]) + 1), nil
			}
			return uint64(off + i + 1), nil
		})
	}
	functions["position"] = pos(false, false, "position")
	functions["positionCaseInsensitive"] = pos(true, false, "positionCaseInsensitive")
	functions["positionUTF8"] = pos(false, true, "positionUTF8")
	functions["positionCaseInsensitiveUTF8"] = pos(true, true, "positionCaseInsensitiveUTF8")
	functionsCI["position"] = functions["position"]
	// locate: argument order depends on function_locate_has_mysql_compatible_argument_order
	// (needle first since 24.3, haystack first before): version-dependent, not modelled.
	functions["locate"] = variadic(2, 3, func(a []any) (any, error) {
		return nil, unsupported("locate(): argument order differs between ClickHouse versions")
	})
	functionsCI["locate"] = functions["locate"]

	// substring(s, offset[, length]) (aliases substr, mid; case-insensitive): bytes, offset
	// counts from 1; offset 0 gives ''; a negative offset counts from the end; without length
	// the rest of the string. A negative length is not modelled.
	sub := func(utf bool, name string) fnDef {
		return variadic(2, 3, func(a []any) (any, error) {
			s, err := asString(a[0], name)
			if err != nil {
				return nil, err
			}
			off, err := asInt(a[1], name)
			if err != nil {
				return nil, err
			}
			var units []string // the addressable units: bytes or code points
			if utf {
				for i := 0; i < len(s); {
					_, w := utf8.DecodeRuneInString(s[i:])
					units = append(units, s[i:i+w])
					i += w
				}
			}
			n := int64(len(s))
			if utf {
				n = int64(len(units))
			}
			if off == 0 {
				return "", nil
			}
			var start int64
			if off > 0 {
				start = off - 1
			} else {
				start = n + off
				if start < 0 {
					start = 0
				}
			}
			if start > n {
				start = n
			}
			end := n
			if len(a) == 3 {
				l, err := asInt(a[2], name)
				if err != nil {
					return nil, err
				}
				if l < 0 {
					return nil, unsupported("%s with a negative length", name)
				}
				if start+l < end {
					end = start + l
				}
			}
			if utf {
				return strings.Join(units[start:end], ""), nil
			}
			return s[start:end], nil
		})
	}
	functions["substring"] = sub(false, "substring")
	functions["substringUTF8"] = sub(true, "substringUTF8")
	for _, n := range []string{"substring", "substr", "mid"} {
		functionsCI[n] = functions["substring"]
	}

	// left / right(s, n): the n left-/right-most bytes; a negative n drops |n| bytes from the
	// other end (docs: left('Hello', -3) = 'He', right('Hello', -3) = 'lo'); n = 0 gives ''.
	lr := func(right, utf bool, name string) fnDef {
		return fixed(2, func(a []any) (any, error) {
			s, err := asString(a[0], name)
			if err != nil {
				return nil, err
			}
			k, err := asInt(a[1], name)
			if err != nil {
				return nil, err
			}
			var idx []int // byte offsets of unit boundaries
			for i := 0; i <= len(s); {
				idx = append(idx, i)
				if i == len(s) {
					break
				}
				w := 1
				if utf {
					_, w = utf8.DecodeRuneInString(s[i:])
				}
				i += w
			}
			n := int64(len(idx) - 1)
			if k < 0 {
				k = n + k
				if k < 0 {
					k = 0
				}
			}
			if k > n {
				k = n
			}
			if right {
				return s[idx[n-k]:], nil
			}
			return s[:idx[k]], nil
		})
	}
	functions["left"], functions["right"] = lr(false, false, "left"), lr(true, false, "right")
	functions["leftUTF8"], functions["rightUTF8"] = lr(false, true, "leftUTF8"), lr(true, true, "rightUTF8")
	functionsCI["left"], functionsCI["right"] = functions["left"], functions["right"]

	// trimLeft / trimRight / trimBoth(s) (aliases ltrim, rtrim, trim): remove consecutive
	// occurrences of the space character (ASCII 32) only.
	trim := func(l, r bool, name string) fnDef {
		return fixed(1, func(a []any) (any, error) {
			s, err := asString(a[0], name)
			if err != nil {
				return nil, err
			}
			if l {
				s = strings.TrimLeft(s, " ")
			}
			if r {
				s = strings.TrimRight(s, " ")
			}
			return s, nil
		})
	}
	functions["trimLeft"], functions["trimRight"], functions["trimBoth"] = trim(true, false, "trimLeft"), trim(false, true, "trimRight"), trim(true, true, "trimBoth")
	functionsCI["ltrim"], functionsCI["rtrim"], functionsCI["trim"] = functions["trimLeft"], functions["trimRight"], functions["trimBoth"]
	// TRIM(LEADING|TRAILING|BOTH chars FROM s): removes any of the given characters
	// (ClickHouse rewrites it to a regexp over the character set).
	functions["__trimChars"] = fixed(3, func(a []any) (any, error) {
		s, err := asString(a[0], "trim")
		if err != nil {
			return nil, err
		}
		chars, err := asString(a[1], "trim")
		if err != nil {
			return nil, err
		}
		if !utf8.ValidString(chars) {
			return nil, unsupported("TRIM with a non-UTF-8 character set")
		}
		mode, _ := a[2].(string)
		if mode != "TRAILING" {
			s = strings.TrimLeft(s, chars)
		}
		if mode != "LEADING" {
			s = strings.TrimRight(s, chars)
		}
		return s, nil
	})

	// extract(haystack, pattern): first match of the first subpattern, or of the whole
	// pattern when it has no subpattern; '' when nothing matches.
	functions["extract"] = fixed(2, func(a []any) (any, error) {
		h, err := asString(a[0], "extract")
		if err != nil {
			return nil, err
		}
		p, err := asString(a[1], "extract")
		if err != nil {
			return nil, err
		}
		re, err := compileRE2(p)
		if err != nil {
			return nil, err
		}
		m := re.FindStringSubmatchIndex(h)
		if m == nil {
			return "", nil
		}
		g := 0
		if re.NumSubexp() > 0 {
			g = 1
		}
		if m[2*g] < 0 {
			return "", nil
		}
		return h[m[2*g]:m[2*g+1]], nil
	})

	two := func(name string, f func(h, n string) bool) {
		functions[name] = fixed(2, func(a []any) (any, error) {
			h, err := asString(a[0], name)
			if err != nil {
				return nil, err
			}
			n, err := asString(a[1], name)
			if err != nil {
				return nil, err
			}
			return b2u(f(h, n)), nil
		})
	}
	two("startsWith", strings.HasPrefix)
	two("endsWith", strings.HasSuffix)

	// replaceOne / replaceAll(haystack, pattern, replacement) — plain substrings. An empty
	// pattern: current servers return the haystack unchanged... older ones threw: not modelled.
	rep := func(all bool, name string) fnDef {
		return fixed(3, func(a []any) (any, error) {
			h, err := asString(a[0], name)
			if err != nil {
				return nil, err
			}
			p, err := asString(a[1], name)
			if err != nil {
				return nil, err
			}
			r, err := asString(a[2], name)
			if err != nil {
				return nil, err
			}
			if p == "" {
				return nil, unsupported("%s with an empty pattern", name)
			}
			if all {
				return strings.ReplaceAll(h, p, r), nil
			}
			return strings.Replace(h, p, r, 1), nil
		})
	}
	functions["replaceOne"], functions["replaceAll"] = rep(false, "replaceOne"), rep(true, "replaceAll")
	functionsCI["replace"] = functions["replaceAll"]
}

func asciiLower(s string) string {
	b := []byte(s)
	for i, c := range b {
		if c >= 'A' && c <= 'Z' {
			b[i] = c + 32
		}
	}
	return string(b)
}

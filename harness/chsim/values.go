package chsim

import (
	"errors"
	"fmt"
	"math"
	"sort"
	"strconv"
	"strings"
	"time"
)

// ErrExec is wrapped by errors ClickHouse itself would raise while analysing or executing
// a statement of the modelled subset (unknown column, wrong argument types, aggregate in
// WHERE, invalid LIKE pattern, ...). It means "the statement is wrong", not "chsim cannot
// tell".
var ErrExec = errors.New("chsim: ClickHouse would reject this statement")

func execErr(format string, a ...any) error {
	return fmt.Errorf("%w: %s", ErrExec, fmt.Sprintf(format, a...))
}
func unsupported(format string, a ...any) error {
	return fmt.Errorf("%w: %s", ErrUnsupported, fmt.Sprintf(format, a...))
}

// Values. A cell holds one of:
//
//	nil                                   NULL
//	string                                String / FixedString (raw bytes)
//	uint8 uint16 uint32 uint64            UIntN   (comparison results are uint8, as in ClickHouse)
//	int8 int16 int32 int64                IntN
//	float64 (float32 accepted on input)   Float64
//	bool                                  Bool (behaves as UInt8 0/1)
//	[]any                                 Array
//	Tuple                                 Tuple
//	Map                                   Map: ordered list of pairs (insertion order, as stored)
//	Date                                  Date (days since 1970-01-01)
//
// Tables may be filled with plain Go int/int64/uint64 too; int is read as Int64.
type (
	Tuple []any
	Pair  struct{ K, V any }
	Map   []Pair
	Date  int32
	// Zero is the "default value of a column whose type chsim could not infer" (the right
	// side of an ANY LEFT JOIN that found no row, when the right relation is empty). It
	// behaves as 0 / "" / [] / {} depending on use.
	Zero struct{}
)

func (d Date) String() string {
	return time.Unix(int64(d)*86400, 0).UTC().Format("2006-01-02")
}

// ParseDate parses YYYY-MM-DD (ClickHouse also accepts a date-time string and a day
// number for toDate; only the plain form is modelled).
func ParseDate(s string) (Date, error) {
	if len(s) >= 10 && len(s) <= 19 {
		if t, err := time.Parse("2006-01-02", s[:10]); err == nil && (len(s) == 10 || s[10] == ' ' || s[10] == 'T') {
			return Date(t.Unix() / 86400), nil
		}
	}
	return 0, execErr("cannot parse %q as Date", s)
}

// normalise widens odd Go inputs (int, float32, uint) once, at table load / literal time.
func normalise(v any) any {
	switch x := v.(type) {
	case int:
		return int64(x)
	case uint:
		return uint64(x)
	case float32:
		return float64(x)
	case []byte:
		return string(x)
	case []string:
		out := make([]any, len(x))
		for i, s := range x {
			out[i] = s
		}
		return out
	case []any:
		out := make([]any, len(x))
		for i, e := range x {
			out[i] = normalise(e)
		}
		return out
	case Tuple:
		out := make(Tuple, len(x))
		for i, e := range x {
			out[i] = normalise(e)
		}
		return out
	case Map:
		out := make(Map, len(x))
		for i, e := range x {
			out[i] = Pair{normalise(e.K), normalise(e.V)}
		}
		return out
	case map[string]string:
		// Go maps have no order: sort keys so tables are deterministic.
		ks := make([]string, 0, len(x))
		for k := range x {
			ks = append(ks, k)
		}
		sort.Strings(ks)
		out := make(Map, len(ks))
		for i, k := range ks {
			out[i] = Pair{k, x[k]}
		}
		return out
	case time.Time:
		return Date(x.Unix() / 86400)
	}
	return v
}

type numKind int

const (
	kNone numKind = iota
	kUint
	kInt
	kFloat
)

// numInfo: kind, width in bits, and the value in all three views.
func numInfo(v any) (k numKind, bits int, u uint64, i int64, f float64) {
	switch x := v.(type) {
	case bool:
		if x {
			return kUint, 8, 1, 1, 1
		}
		return kUint, 8, 0, 0, 0
	case uint8:
		return kUint, 8, uint64(x), int64(x), float64(x)
	case uint16:
		return kUint, 16, uint64(x), int64(x), float64(x)
	case uint32:
		return kUint, 32, uint64(x), int64(x), float64(x)
	case uint64:
		return kUint, 64, x, int64(x), float64(x)
	case int8:
		return kInt, 8, uint64(x), int64(x), float64(x)
	case int16:
		return kInt, 16, uint64(x), int64(x), float64(x)
	case int32:
		return kInt, 32, uint64(x), int64(x), float64(x)
	case int64:
		return kInt, 64, uint64(x), x, float64(x)
	case int:
		return kInt, 64, uint64(x), int64(x), float64(x)
	case float64:
		return kFloat, 64, uint64(x), int64(x), x
	case float32:
		return kFloat, 64, uint64(x), int64(x), float64(x)
	case Zero:
		return kUint, 8, 0, 0, 0
	}
	return kNone, 0, 0, 0, 0
}

func isNum(v any) bool { k, _, _, _, _ := numInfo(v); return k != kNone }

func toFloat(v any) (float64, bool) {
	k, _, _, _, f := numInfo(v)
	return f, k != kNone
}

func mkUint(bits int, u uint64) any {
	switch bits {
	case 8:
		return uint8(u)
	case 16:
		return uint16(u)
	case 32:
		return uint32(u)
	}
	return u
}
func mkInt(bits int, i int64) any {
	switch bits {
	case 8:
		return int8(i)
	case 16:
		return int16(i)
	case 32:
		return int32(i)
	}
	return i
}

func b2u(b bool) any {
	if b {
		return uint8(1)
	}
	return uint8(0)
}

// truth converts a condition value to bool; NULL is false (WHERE/HAVING/if drop NULL).
func truth(v any) (bool, error) {
	if v == nil {
		return false, nil
	}
	k, _, u, _, f := numInfo(v)
	switch k {
	case kUint, kInt:
		return u != 0, nil
	case kFloat:
		return f != 0, nil
	}
	return false, execErr("illegal type %s of condition (UInt8 expected)", typeName(v))
}

func typeName(v any) string {
	switch x := v.(type) {
	case nil:
		return "Nullable(Nothing)"
	case string:
		return "String"
	case bool:
		return "Bool"
	case uint8, uint16, uint32, uint64:
		_, b, _, _, _ := numInfo(v)
		return "UInt" + strconv.Itoa(b)
	case int8, int16, int32, int64, int:
		_, b, _, _, _ := numInfo(v)
		return "Int" + strconv.Itoa(b)
	case float64, float32:
		return "Float64"
	case []any:
		if len(x) > 0 {
			return "Array(" + typeName(x[0]) + ")"
		}
		return "Array(Nothing)"
	case Tuple:
		p := make([]string, len(x))
		for i, e := range x {
			p[i] = typeName(e)
		}
		return "Tuple(" + strings.Join(p, ", ") + ")"
	case Map:
		return "Map"
	case Date:
		return "Date"
	case Zero:
		return "<default>"
	}
	return fmt.Sprintf("%T", v)
}

// ---- comparison ------------------------------------------------------------------------

// compare returns -1/0/+1 for two non-NULL comparable values. Numbers compare by value
// across types (ClickHouse compares UInt64 with Int64/Float64 mathematically correctly);
// strings bytewise; arrays and tuples lexicographically; Date with Date or with a string
// holding a date (ClickHouse converts the string constant). Anything else is an error
// (ClickHouse: "no supertype").
func compare(a, b any) (int, error) {
	if _, ok := a.(Zero); ok {
		a = zeroLike(b)
	}
	if _, ok := b.(Zero); ok {
		b = zeroLike(a)
	}
	ka, _, ua, ia, fa := numInfo(a)
	kb, _, ub, ib, fb := numInfo(b)
	if ka != kNone && kb != kNone {
		switch {
		case ka == kFloat || kb == kFloat:
			// exact for the magnitudes the planners use (< 2^53 or both float)
			if ka != kFloat {
				fa = exactFloat(ka, ua, ia)
			}
			if kb != kFloat {
				fb = exactFloat(kb, ub, ib)
			}
			switch {
			case fa < fb:
				return -1, nil
			case fa > fb:
				return 1, nil
			case fa == fb:
				return 0, nil
			}
			// NaN: ClickHouse orders NaN after everything in sorting; comparisons are false.
			if math.IsNaN(fa) && math.IsNaN(fb) {
				return 0, nil
			}
			if math.IsNaN(fa) {
				return 1, nil
			}
			return -1, nil
		case ka == kUint && kb == kUint:
			return cmpOrdered(ua, ub), nil
		case ka == kInt && kb == kInt:
			return cmpOrdered(ia, ib), nil
		case ka == kInt:
			if ia < 0 {
				return -1, nil
			}
			return cmpOrdered(uint64(ia), ub), nil
		default:
			if ib < 0 {
				return 1, nil
			}
			return cmpOrdered(ua, uint64(ib)), nil
		}
	}
	switch x := a.(type) {
	case string:
		switch y := b.(type) {
		case string:
			return strings.Compare(x, y), nil
		case Date:
			d, err := ParseDate(x)
			if err != nil {
				return 0, err
			}
			return cmpOrdered(d, y), nil
		}
	case Date:
		switch y := b.(type) {
		case Date:
			return cmpOrdered(x, y), nil
		case string:
			d, err := ParseDate(y)
			if err != nil {
				return 0, err
			}
			return cmpOrdered(x, d), nil
		}
		if kb == kUint || kb == kInt {
			return cmpOrdered(int64(x), ib), nil
		}
	case []any:
		if y, ok := b.([]any); ok {
			return cmpSeq(x, y, false)
		}
	case Tuple:
		if y, ok := b.(Tuple); ok {
			if len(x) != len(y) {
				return 0, execErr("cannot compare tuples of different sizes")
			}
			return cmpSeq(x, y, true)
		}
	case Map:
		if y, ok := b.(Map); ok {
			// Map comparison is not defined in the ClickHouse versions qryn targets except
			// equality; used here for equality and deterministic ordering only.
			return cmpSeq(mapAsTuples(x), mapAsTuples(y), false)
		}
	}
	if ka != kNone {
		if d, ok := b.(Date); ok {
			return cmpOrdered(ia, int64(d)), nil
		}
	}
	return 0, execErr("cannot compare %s with %s (no supertype)", typeName(a), typeName(b))
}

func zeroLike(v any) any {
	switch v.(type) {
	case string:
		return ""
	case []any:
		return []any{}
	case Map:
		return Map{}
	case Date:
		return Date(0)
	case Tuple:
		t := v.(Tuple)
		out := make(Tuple, len(t))
		for i := range t {
			out[i] = zeroLike(t[i])
		}
		return out
	}
	return uint8(0)
}

func exactFloat(k numKind, u uint64, i int64) float64 {
	if k == kUint {
		return float64(u)
	}
	return float64(i)
}

func mapAsTuples(m Map) []any {
	out := make([]any, len(m))
	for i, p := range m {
		out[i] = Tuple{p.K, p.V}
	}
	return out
}

type ordered interface {
	~int32 | ~int64 | ~uint64 | ~float64
}

func cmpOrdered[T ordered](a, b T) int {
	switch {
	case a < b:
		return -1
	case a > b:
		return 1
	}
	return 0
}

func cmpSeq(x, y []any, sameLen bool) (int, error) {
	for i := 0; i < len(x) && i < len(y); i++ {
		c, err := compareNullable(x[i], y[i])
		if err != nil {
			return 0, err
		}
		if c != 0 {
			return c, nil
		}
	}
	return cmpOrdered(int64(len(x)), int64(len(y))), nil
}

// compareNullable orders NULL after every value (sorting, nested comparison).
func compareNullable(a, b any) (int, error) {
	switch {
	case a == nil && b == nil:
		return 0, nil
	case a == nil:
		return 1, nil
	case b == nil:
		return -1, nil
	}
	return compare(a, b)
}

// valueKey is a canonical string for hashing: GROUP BY keys, DISTINCT, IN sets, join keys.
// Numbers that compare equal get the same key regardless of width/signedness.
func valueKey(v any) string {
	var b strings.Builder
	writeKey(&b, v)
	return b.String()
}

func writeKey(b *strings.Builder, v any) {
	switch x := v.(type) {
	case nil:
		b.WriteString("N;")
	case string:
		fmt.Fprintf(b, "s%d:%s;", len(x), x)
	case []any:
		fmt.Fprintf(b, "a%d[", len(x))
		for _, e := range x {
			writeKey(b, e)
		}
		b.WriteString("];")
	case Tuple:
		fmt.Fprintf(b, "t%d(", len(x))
		for _, e := range x {
			writeKey(b, e)
		}
		b.WriteString(");")
	case Map:
		fmt.Fprintf(b, "m%d{", len(x))
		for _, e := range x {
			writeKey(b, e.K)
			writeKey(b, e.V)
		}
		b.WriteString("};")
	case Date:
		fmt.Fprintf(b, "d%d;", int32(x))
	case Zero:
		b.WriteString("z;")
	default:
		k, _, u, i, f := numInfo(v)
		switch k {
		case kUint:
			fmt.Fprintf(b, "n%d;", u)
		case kInt:
			fmt.Fprintf(b, "n%d;", i)
		case kFloat:
			if f == math.Trunc(f) && math.Abs(f) < 1e18 {
				fmt.Fprintf(b, "n%d;", int64(f))
			} else {
				fmt.Fprintf(b, "f%x;", math.Float64bits(f))
			}
		default:
			fmt.Fprintf(b, "?%v;", v)
		}
	}
}

// ---- arithmetic ------------------------------------------------------------------------

// arith implements + - * / % with ClickHouse's result types (docs "Arithmetic functions":
// "the result type is the smallest type that can hold the result: twice the width of the
// widest argument up to 64 bits; signed if any argument is signed or the operation is a
// subtraction; floating point if any argument is floating"). Integer overflow wraps as in
// C++. Division always yields Float64; modulo and intDiv by zero throw.
func arith(op string, a, b any) (any, error) {
	if a == nil || b == nil {
		return nil, nil
	}
	// Date +/- Interval and Date +/- integer days
	if d, ok := a.(Date); ok {
		if iv, ok := b.(*Interval); ok {
			return dateAdd(d, iv, op)
		}
		if k, _, _, i, _ := numInfo(b); k == kUint || k == kInt {
			if op == "+" {
				return d + Date(i), nil
			}
			if op == "-" {
				return d - Date(i), nil
			}
		}
		if d2, ok := b.(Date); ok && op == "-" {
			return int32(d) - int32(d2), nil
		}
	}
	ka, wa, ua, ia, fa := numInfo(a)
	kb, wb, ub, ib, fb := numInfo(b)
	if ka == kNone || kb == kNone {
		return nil, execErr("illegal types %s and %s of arguments of %s", typeName(a), typeName(b), op)
	}
	if op == "/" {
		return fa / fb, nil
	}
	if ka == kFloat || kb == kFloat {
		switch op {
		case "+":
			return fa + fb, nil
		case "-":
			return fa - fb, nil
		case "*":
			return fa * fb, nil
		case "%":
			return math.Mod(fa, fb), nil
		}
	}
	w := wa
	if wb > w {
		w = wb
	}
	signed := ka == kInt || kb == kInt
	switch op {
	case "+", "*":
		if w < 64 {
			w *= 2
		}
	case "-":
		if w < 64 {
			w *= 2
		}
		signed = true
	case "%":
		// NumberTraits::ResultOfModulo: signed iff the dividend is signed; as wide as the
		// divisor, one size wider when signed ("toInt32(-199) % toUInt8(200) = -199 does not
		// fit in Int8"): Int64 % UInt16 -> Int32, UInt64 % UInt16 -> UInt16.
		if ub == 0 {
			return nil, execErr("division by zero")
		}
		if ka == kInt {
			w := wb * 2
			if w > 64 {
				w = 64
			}
			if kb == kUint && ub > math.MaxInt64 {
				return mkInt(w, ia), nil // |a| < b
			}
			return mkInt(w, ia%ib), nil
		}
		if kb == kInt && ib < 0 {
			return nil, unsupported("unsigned %% negative divisor")
		}
		return mkUint(wb, ua%ub), nil
	}
	if signed {
		var r int64
		switch op {
		case "+":
			r = ia + ib
		case "-":
			r = ia - ib
		case "*":
			r = ia * ib
		}
		return mkInt(w, r), nil
	}
	var r uint64
	switch op {
	case "+":
		r = ua + ub
	case "*":
		r = ua * ub
	}
	return mkUint(w, r), nil
}

func dateAdd(d Date, iv *Interval, op string) (any, error) {
	n := iv.N
	if op == "-" {
		n = -n
	} else if op != "+" {
		return nil, execErr("illegal operation %s on Date and Interval", op)
	}
	t := time.Unix(int64(d)*86400, 0).UTC()
	switch iv.Unit {
	case "DAY":
		t = t.AddDate(0, 0, int(n))
	case "WEEK":
		t = t.AddDate(0, 0, 7*int(n))
	case "MONTH":
		t = t.AddDate(0, int(n), 0)
	case "YEAR":
		t = t.AddDate(int(n), 0, 0)
	default:
		return nil, unsupported("Date + INTERVAL %s", iv.Unit)
	}
	return Date(t.Unix() / 86400), nil
}

// intDiv: integer division rounding toward zero; result has the type of the dividend
// (docs: "intDiv(a, b) ... result type is the type of a"); throws on division by zero.
func intDiv(a, b any) (any, error) {
	if a == nil || b == nil {
		return nil, nil
	}
	ka, wa, ua, ia, fa := numInfo(a)
	kb, _, ub, ib, fb := numInfo(b)
	if ka == kNone || kb == kNone {
		return nil, execErr("illegal types %s, %s of arguments of intDiv", typeName(a), typeName(b))
	}
	if ka == kFloat || kb == kFloat {
		// ClickHouse converts floats to integers first
		if fb == 0 {
			return nil, execErr("division by zero")
		}
		return int64(fa) / int64(fb), nil
	}
	if ub == 0 {
		return nil, execErr("division by zero")
	}
	if ka == kInt || kb == kInt {
		return mkInt(wa, ia/ib), nil
	}
	return mkUint(wa, ua/ub), nil
}

// ---- conversions -----------------------------------------------------------------------

func asString(v any, fn string) (string, error) {
	switch x := v.(type) {
	case string:
		return x, nil
	case Zero:
		return "", nil
	}
	return "", execErr("illegal type %s of argument of %s (String expected)", typeName(v), fn)
}

func asArray(v any, fn string) ([]any, error) {
	switch x := v.(type) {
	case []any:
		return x, nil
	case Zero:
		return []any{}, nil
	}
	return nil, execErr("illegal type %s of argument of %s (Array expected)", typeName(v), fn)
}

func asMap(v any, fn string) (Map, error) {
	switch x := v.(type) {
	case Map:
		return x, nil
	case Zero:
		return Map{}, nil
	}
	return nil, execErr("illegal type %s of argument of %s (Map expected)", typeName(v), fn)
}

func asInt(v any, fn string) (int64, error) {
	k, _, _, i, _ := numInfo(v)
	if k == kUint || k == kInt {
		return i, nil
	}
	return 0, execErr("illegal type %s of argument of %s (integer expected)", typeName(v), fn)
}

// toStringValue implements toString for the modelled types (docs: "Type conversion /
// toString": numbers in decimal, Date as YYYY-MM-DD, String unchanged; floats in
// ClickHouse's shortest round-trip form).
func toStringValue(v any) (string, error) {
	switch x := v.(type) {
	case string:
		return x, nil
	case Date:
		return x.String(), nil
	case bool:
		if x {
			return "true", nil
		}
		return "false", nil
	case Zero:
		return "", nil
	}
	k, _, u, i, f := numInfo(v)
	switch k {
	case kUint:
		return strconv.FormatUint(u, 10), nil
	case kInt:
		return strconv.FormatInt(i, 10), nil
	case kFloat:
		return formatFloat(f), nil
	}
	return "", unsupported("toString(%s)", typeName(v))
}

func formatFloat(f float64) string {
	switch {
	case math.IsNaN(f):
		return "nan"
	case math.IsInf(f, 1):
		return "inf"
	case math.IsInf(f, -1):
		return "-inf"
	}
	s := strconv.FormatFloat(f, 'g', -1, 64)
	// Go: 1e+06 -> ClickHouse: 1000000 ; keep exponent form only where ClickHouse does (>=1e21)
	if strings.ContainsAny(s, "e") && math.Abs(f) < 1e21 && math.Abs(f) >= 1e-4 {
		s = strconv.FormatFloat(f, 'f', -1, 64)
	}
	return s
}

// parseFloatCH parses a string the way toFloat64OrNull/OrZero do (ReadHelpers
// readFloatText precise: optional sign, digits, fraction, exponent, inf/nan; the WHOLE
// string must be consumed; leading/trailing white space is not accepted).
func parseFloatCH(s string) (float64, bool) {
	if s == "" {
		return 0, false
	}
	t := s
	if t[0] == '+' || t[0] == '-' {
		t = t[1:]
	}
	lt := strings.ToLower(t)
	if lt == "inf" || lt == "infinity" || lt == "nan" {
		f, _ := strconv.ParseFloat(s, 64)
		if lt == "nan" {
			return math.NaN(), true
		}
		return f, true
	}
	// only decimal digits, one dot, exponent: reject hex floats, underscores, spaces
	seenDigit := false
	for i := 0; i < len(t); i++ {
		c := t[i]
		switch {
		case isDigit(c):
			seenDigit = true
		case c == '.':
		case c == 'e' || c == 'E':
			if !seenDigit {
				return 0, false
			}
			rest := t[i+1:]
			if rest != "" && (rest[0] == '+' || rest[0] == '-') {
				rest = rest[1:]
			}
			if rest == "" {
				return 0, false
			}
			for j := 0; j < len(rest); j++ {
				if !isDigit(rest[j]) {
					return 0, false
				}
			}
			f, err := strconv.ParseFloat(s, 64)
			if err != nil && !errors.Is(err, strconv.ErrRange) {
				return 0, false
			}
			return f, true
		default:
			return 0, false
		}
	}
	if !seenDigit || strings.Count(t, ".") > 1 {
		return 0, false
	}
	f, err := strconv.ParseFloat(s, 64)
	if err != nil && !errors.Is(err, strconv.ErrRange) {
		return 0, false
	}
	return f, true
}

// Native converts a result cell into plain Go data for callers that feed database/sql:
// Map -> map[string]string when every key and value is a string (else map[string]any),
// Tuple -> []any, Array -> []any (recursively), Date -> time.Time, Zero -> nil.
func Native(v any) any {
	switch x := v.(type) {
	case Map:
		allStr := true
		for _, p := range x {
			if _, ok := p.K.(string); !ok {
				allStr = false
			}
			if _, ok := p.V.(string); !ok {
				allStr = false
			}
		}
		if allStr {
			m := make(map[string]string, len(x))
			for _, p := range x {
				m[p.K.(string)] = p.V.(string)
			}
			return m
		}
		m := make(map[string]any, len(x))
		for _, p := range x {
			m[fmt.Sprint(Native(p.K))] = Native(p.V)
		}
		return m
	case Tuple:
		out := make([]any, len(x))
		for i, e := range x {
			out[i] = Native(e)
		}
		return out
	case []any:
		out := make([]any, len(x))
		for i, e := range x {
			out[i] = Native(e)
		}
		return out
	case Date:
		return time.Unix(int64(x)*86400, 0).UTC()
	case Zero:
		return nil
	case bool:
		return x
	}
	return v
}

package chsim

import (
	"math"
	"strconv"
	"strings"
	"unicode/utf16"
	"unicode/utf8"
)

// A small strict JSON reader that keeps member order and number spelling, so that the
// JSON* functions can follow ClickHouse (docs: "JSON functions"; implementation
// src/Functions/FunctionsJSON.h over simdjson):
//
//   - an invalid document makes every JSON* function return its "nothing" value
//     ('' / [] / 'Null' / 0);
//   - path arguments: a String selects an object member by key (the first one when keys
//     repeat), a positive integer n selects the n-th array element or the n-th member of an
//     object (1-based), a negative integer counts from the end;
//   - JSONType gives 'Object' 'Array' 'String' 'Int64' 'UInt64' 'Double' 'Bool' 'Null';
//     'Null' (enum value 0) also when the path does not exist. Integers that fit Int64 are
//     'Int64', larger ones up to 2^64-1 'UInt64', everything else 'Double';
//   - JSONExtractString returns the unescaped string if the element is a string, else '';
//   - JSONExtractRaw returns the element re-serialised compactly (no white space, strings
//     re-escaped, doubles printed in shortest form), '' if absent. NOTE: the docs' example
//     shows the original spelling ("[-100, 200.0, 300]"); current servers print
//     "[-100,200,300]". chsim follows the implementation; callers comparing raw extracts of
//     non-string values across engines should treat white space / number spelling as a
//     don't-care zone;
//   - JSONExtractKeysAndValues(json, path..., 'String') returns (key, value) for the
//     members of the selected object; with value type String a string member yields its
//     text and any other member its compact serialisation (as JSONExtractRaw).
type jsonKind int

const (
	jNull jsonKind = iota
	jBool
	jNumber
	jString
	jArray
	jObject
)

type jsonVal struct {
	kind jsonKind
	b    bool
	num  string // original spelling
	str  string
	arr  []*jsonVal
	keys []string
	vals []*jsonVal
}

type jsonParser struct {
	s string
	i int
}

func parseJSON(s string) (*jsonVal, bool) {
	if !utf8.ValidString(s) {
		return nil, false // simdjson validates UTF-8
	}
	p := &jsonParser{s: s}
	p.ws()
	v, ok := p.value(0)
	if !ok {
		return nil, false
	}
	p.ws()
	if p.i != len(p.s) {
		return nil, false
	}
	return v, true
}

func (p *jsonParser) ws() {
	for p.i < len(p.s) {
		switch p.s[p.i] {
		case ' ', '\t', '\n', '\r':
			p.i++
		default:
			return
		}
	}
}

func (p *jsonParser) value(depth int) (*jsonVal, bool) {
	if depth > 512 || p.i >= len(p.s) {
		return nil, false
	}
	switch c := p.s[p.i]; {
	case c == '{':
		p.i++
		v := &jsonVal{kind: jObject}
		p.ws()
		if p.i < len(p.s) && p.s[p.i] == '}' {
			p.i++
			return v, true
		}
		for {
			p.ws()
			if p.i >= len(p.s) || p.s[p.i] != '"' {
				return nil, false
			}
			k, ok := p.str()
			if !ok {
				return nil, false
			}
			p.ws()
			if p.i >= len(p.s) || p.s[p.i] != ':' {
				return nil, false
			}
			p.i++
			p.ws()
			e, ok := p.value(depth + 1)
			if !ok {
				return nil, false
			}
			v.keys = append(v.keys, k)
			v.vals = append(v.vals, e)
			p.ws()
			if p.i >= len(p.s) {
				return nil, false
			}
			if p.s[p.i] == ',' {
				p.i++
				continue
			}
			if p.s[p.i] == '}' {
				p.i++
				return v, true
			}
			return nil, false
		}
	case c == '[':
		p.i++
		v := &jsonVal{kind: jArray}
		p.ws()
		if p.i < len(p.s) && p.s[p.i] == ']' {
			p.i++
			return v, true
		}
		for {
			p.ws()
			e, ok := p.value(depth + 1)
			if !ok {
				return nil, false
			}
			v.arr = append(v.arr, e)
			p.ws()
			if p.i >= len(p.s) {
				return nil, false
			}
			if p.s[p.i] == ',' {
				p.i++
				continue
			}
			if p.s[p.i] == ']' {
				p.i++
				return v, true
			}
			return nil, false
		}
	case c == '"':
		s, ok := p.str()
		if !ok {
			return nil, false
		}
		return &jsonVal{kind: jString, str: s}, true
	case c == 't' && strings.HasPrefix(p.s[p.i:], "true"):
		p.i += 4
		return &jsonVal{kind: jBool, b: true}, true
	case c == 'f' && strings.HasPrefix(p.s[p.i:], "false"):
		p.i += 5
		return &jsonVal{kind: jBool}, true
	case c == 'n' && strings.HasPrefix(p.s[p.i:], "null"):
		p.i += 4
		return &jsonVal{kind: jNull}, true
	case c == '-' || isDigit(c):
		start := p.i
		if c == '-' {
			p.i++
		}
		if p.i >= len(p.s) || !isDigit(p.s[p.i]) {
			return nil, false
		}
		if p.s[p.i] == '0' {
			p.i++
		} else {
			for p.i < len(p.s) && isDigit(p.s[p.i]) {
				p.i++
			}
		}
		if p.i < len(p.s) && p.s[p.i] == '.' {
			p.i++
			if p.i >= len(p.s) || !isDigit(p.s[p.i]) {
				return nil, false
			}
			for p.i < len(p.s) && isDigit(p.s[p.i]) {
				p.i++
			}
		}
		if p.i < len(p.s) && (p.s[p.i] == 'e' || p.s[p.i] == 'E') {
			p.i++
			if p.i < len(p.s) && (p.s[p.i] == '+' || p.s[p.i] == '-') {
				p.i++
			}
			if p.i >= len(p.s) || !isDigit(p.s[p.i]) {
				return nil, false
			}
			for p.i < len(p.s) && isDigit(p.s[p.i]) {
				p.i++
			}
		}
		return &jsonVal{kind: jNumber, num: p.s[start:p.i]}, true
	}
	return nil, false
}

func (p *jsonParser) str() (string, bool) {
	p.i++ // opening quote
	var b strings.Builder
	for p.i < len(p.s) {
		c := p.s[p.i]
		switch {
		case c == '"':
			p.i++
			return b.String(), true
		case c < 0x20:
			return "", false
		case c == '\\':
			p.i++
			if p.i >= len(p.s) {
				return "", false
			}
			switch e := p.s[p.i]; e {
			case '"', '\\', '/':
				b.WriteByte(e)
			case 'b':
				b.WriteByte('\b')
			case 'f':
				b.WriteByte('\f')
			case 'n':
				b.WriteByte('\n')
			case 'r':
				b.WriteByte('\r')
			case 't':
				b.WriteByte('\t')
			case 'u':
				r, ok := p.hex4()
				if !ok {
					return "", false
				}
				if utf16.IsSurrogate(r) {
					if p.i+2 < len(p.s) && p.s[p.i+1] == '\\' && p.s[p.i+2] == 'u' {
						p.i += 2
						r2, ok := p.hex4()
						if !ok {
							return "", false
						}
						r = utf16.DecodeRune(r, r2)
						if r == utf8.RuneError {
							return "", false
						}
					} else {
						return "", false
					}
				}
				b.WriteRune(r)
			default:
				return "", false
			}
			p.i++
		default:
			b.WriteByte(c)
			p.i++
		}
	}
	return "", false
}

// hex4 reads the 4 hex digits after \u; leaves p.i on the last digit.
func (p *jsonParser) hex4() (rune, bool) {
	if p.i+4 >= len(p.s) {
		return 0, false
	}
	v, err := strconv.ParseUint(p.s[p.i+1:p.i+5], 16, 32)
	if err != nil {
		return 0, false
	}
	p.i += 4
	return rune(v), true
}

func (v *jsonVal) typeName() string {
	switch v.kind {
	case jNull:
		return "Null"
	case jBool:
		return "Bool"
	case jString:
		return "String"
	case jArray:
		return "Array"
	case jObject:
		return "Object"
	}
	if !strings.ContainsAny(v.num, ".eE") {
		if _, err := strconv.ParseInt(v.num, 10, 64); err == nil {
			return "Int64"
		}
		if _, err := strconv.ParseUint(v.num, 10, 64); err == nil {
			return "UInt64"
		}
	}
	return "Double"
}

func writeJSONString(b *strings.Builder, s string) {
	b.WriteByte('"')
	for i := 0; i < len(s); i++ {
		c := s[i]
		switch c {
		case '"':
			b.WriteString(`\"`)
		case '\\':
			b.WriteString(`\\`)
		case '\b':
			b.WriteString(`\b`)
		case '\f':
			b.WriteString(`\f`)
		case '\n':
			b.WriteString(`\n`)
		case '\r':
			b.WriteString(`\r`)
		case '\t':
			b.WriteString(`\t`)
		default:
			if c < 0x20 {
				b.WriteString(`\u00`)
				b.WriteByte("0123456789abcdef"[c>>4])
				b.WriteByte("0123456789abcdef"[c&15])
			} else {
				b.WriteByte(c)
			}
		}
	}
	b.WriteByte('"')
}

func (v *jsonVal) raw(b *strings.Builder) {
	switch v.kind {
	case jNull:
		b.WriteString("null")
	case jBool:
		if v.b {
			b.WriteString("true")
		} else {
			b.WriteString("false")
		}
	case jString:
		writeJSONString(b, v.str)
	case jNumber:
		if v.typeName() == "Double" {
			f, err := strconv.ParseFloat(v.num, 64)
			if err != nil || math.IsInf(f, 0) {
				b.WriteString(v.num)
			} else {
				b.WriteString(formatFloat(f))
			}
		} else {
			b.WriteString(v.num)
		}
	case jArray:
		b.WriteByte('[')
		for i, e := range v.arr {
			if i > 0 {
				b.WriteByte(',')
			}
			e.raw(b)
		}
		b.WriteByte(']')
	case jObject:
		b.WriteByte('{')
		for i, e := range v.vals {
			if i > 0 {
				b.WriteByte(',')
			}
			writeJSONString(b, v.keys[i])
			b.WriteByte(':')
			e.raw(b)
		}
		b.WriteByte('}')
	}
}

// jsonSelect parses args[0] and walks the path args[1:]. ok=false: invalid document or
// path not found. A path element of an illegal type is an execution error.
func jsonSelect(fn string, args []any) (*jsonVal, bool, error) {
	doc, err := asString(args[0], fn)
	if err != nil {
		return nil, false, err
	}
	// validate path types before looking at the document (ClickHouse checks types at
	// analysis time)
	for _, a := range args[1:] {
		if _, isStr := a.(string); !isStr {
			if k, _, _, _, _ := numInfo(a); k != kUint && k != kInt {
				return nil, false, execErr("%s: path elements must be strings or integers, got %s", fn, typeName(a))
			}
		}
	}
	v, ok := parseJSON(doc)
	if !ok {
		return nil, false, nil
	}
	for _, a := range args[1:] {
		switch k := a.(type) {
		case string:
			if v.kind != jObject {
				return nil, false, nil
			}
			found := false
			for i, key := range v.keys {
				if key == k {
					v, found = v.vals[i], true
					break
				}
			}
			if !found {
				return nil, false, nil
			}
		default:
			_, _, _, n, _ := numInfo(a)
			var list []*jsonVal
			switch v.kind {
			case jArray:
				list = v.arr
			case jObject:
				list = v.vals
			default:
				return nil, false, nil
			}
			if n < 0 {
				n = int64(len(list)) + n + 1
			}
			if n < 1 || n > int64(len(list)) {
				return nil, false, nil
			}
			v = list[n-1]
		}
	}
	return v, true, nil
}

func fnJSONType(a []any) (any, error) {
	v, ok, err := jsonSelect("JSONType", a)
	if err != nil {
		return nil, err
	}
	if !ok {
		return "Null", nil
	}
	return v.typeName(), nil
}

func fnJSONHas(a []any) (any, error) {
	_, ok, err := jsonSelect("JSONHas", a)
	if err != nil {
		return nil, err
	}
	return b2u(ok), nil
}

func fnJSONExtractString(a []any) (any, error) {
	v, ok, err := jsonSelect("JSONExtractString", a)
	if err != nil {
		return nil, err
	}
	if !ok || v.kind != jString {
		return "", nil
	}
	return v.str, nil
}

func fnJSONExtractRaw(a []any) (any, error) {
	v, ok, err := jsonSelect("JSONExtractRaw", a)
	if err != nil {
		return nil, err
	}
	if !ok {
		return "", nil
	}
	var b strings.Builder
	v.raw(&b)
	return b.String(), nil
}

func fnJSONExtractKeysAndValues(a []any) (any, error) {
	ty, isStr := a[len(a)-1].(string)
	if !isStr {
		return nil, execErr("JSONExtractKeysAndValues: the last argument must be a type name")
	}
	if ty != "String" {
		return nil, unsupported("JSONExtractKeysAndValues(..., %q)", ty)
	}
	v, ok, err := jsonSelect("JSONExtractKeysAndValues", a[:len(a)-1])
	if err != nil {
		return nil, err
	}
	out := []any{}
	if !ok || v.kind != jObject {
		return out, nil
	}
	for i, k := range v.keys {
		e := v.vals[i]
		switch e.kind {
		case jString:
			out = append(out, Tuple{k, e.str})
		case jNull:
			// JSONExtract of null into String: the element is skipped
			continue
		default:
			var b strings.Builder
			e.raw(&b)
			out = append(out, Tuple{k, b.String()})
		}
	}
	return out, nil
}

package chsim

import (
	"fmt"
	"math"
	"strconv"
	"strings"
)

// Parse parses one SELECT statement (optionally followed by ';').
//
// Grammar: the dialect qryn's planners emit (enumerated from reader/utils/sql_select and
// the raw fragments of the planners), with ClickHouse's operator priorities
// (src/Parsers/ExpressionListParsers.cpp, lowest first):
//
//	->   ?:   OR   AND   NOT   IS [NOT] NULL   = == != <> < <= > >= [NOT] LIKE/ILIKE/IN
//	||   + -   * / %   unary -   [ ] . ::
//
// all binary operators left-associative. A syntax ClickHouse has but the planners never
// emit (CASE, BETWEEN, window functions, LIMIT BY, WITH TOTALS, FORMAT, ...) gives an error
// wrapping ErrUnsupported; malformed input gives ErrSyntax.
func Parse(sql string) (*Query, error) {
	toks, err := Tokens(sql)
	if err != nil {
		return nil, err
	}
	p := &parser{toks: toks, src: sql}
	q, err := p.parseQuery()
	if err != nil {
		return nil, err
	}
	for p.isOp(";") {
		p.pos++
	}
	if !p.eof() {
		return nil, p.errf("unexpected %q after end of statement", p.peek().Text)
	}
	return q, nil
}

// ParseExpr parses a single expression (tests, tools).
func ParseExpr(s string) (Expr, error) {
	toks, err := Tokens(s)
	if err != nil {
		return nil, err
	}
	p := &parser{toks: toks, src: s}
	e, err := p.parseExprAlias()
	if err != nil {
		return nil, err
	}
	if !p.eof() {
		return nil, p.errf("unexpected %q after expression", p.peek().Text)
	}
	return e, nil
}

type parser struct {
	toks []Token
	pos  int
	src  string
}

// reserved words: never taken as an implicit identifier where a clause keyword may follow.
var reserved = map[string]bool{}

func init() {
	for _, w := range strings.Fields(`SELECT FROM WHERE PREWHERE GROUP HAVING ORDER LIMIT OFFSET SETTINGS UNION INTERSECT
		EXCEPT JOIN GLOBAL ANY ALL INNER LEFT RIGHT FULL CROSS ARRAY SEMI ANTI ASOF OUTER ON USING AS AND OR NOT IN IS LIKE
		ILIKE BETWEEN ASC DESC WITH BY DISTINCT FORMAT INTO TOTALS CASE WHEN THEN ELSE END INTERVAL NULLS FINAL SAMPLE WINDOW QUALIFY`) {
		reserved[w] = true
	}
}

func (p *parser) eof() bool { return p.pos >= len(p.toks) }
func (p *parser) peek() Token {
	if p.eof() {
		return Token{Kind: TokOp, Text: "<end>", Pos: len(p.src)}
	}
	return p.toks[p.pos]
}
func (p *parser) peekN(n int) Token {
	if p.pos+n >= len(p.toks) {
		return Token{Kind: TokOp, Text: "<end>", Pos: len(p.src)}
	}
	return p.toks[p.pos+n]
}
func (p *parser) errf(format string, a ...any) error {
	return fmt.Errorf("%w at byte %d: %s", ErrSyntax, p.peek().Pos, fmt.Sprintf(format, a...))
}
func (p *parser) unsupported(format string, a ...any) error {
	return fmt.Errorf("%w: at byte %d: %s", ErrUnsupported, p.peek().Pos, fmt.Sprintf(format, a...))
}
func (p *parser) isOp(s string) bool {
	t := p.peek()
	return !p.eof() && t.Kind == TokOp && t.Text == s
}
func (p *parser) isKwAt(n int, kw string) bool {
	t := p.peekN(n)
	return p.pos+n < len(p.toks) && t.Kind == TokBareWord && strings.EqualFold(t.Text, kw)
}
func (p *parser) isKw(kw string) bool { return p.isKwAt(0, kw) }
func (p *parser) acceptKw(kws ...string) bool {
	for i, kw := range kws {
		if !p.isKwAt(i, kw) {
			return false
		}
	}
	p.pos += len(kws)
	return true
}
func (p *parser) acceptOp(s string) bool {
	if p.isOp(s) {
		p.pos++
		return true
	}
	return false
}
func (p *parser) expectOp(s string) error {
	if !p.acceptOp(s) {
		return p.errf("expected %q, found %q", s, p.peek().Text)
	}
	return nil
}
func (p *parser) expectKw(kw string) error {
	if !p.acceptKw(kw) {
		return p.errf("expected %s, found %q", kw, p.peek().Text)
	}
	return nil
}

// identifier: bare word (not reserved) or quoted identifier.
func (p *parser) parseName() (string, error) {
	t := p.peek()
	if p.eof() {
		return "", p.errf("expected identifier")
	}
	switch t.Kind {
	case TokQuotedIdent:
		p.pos++
		return t.Val, nil
	case TokBareWord:
		p.pos++
		return t.Text, nil
	}
	return "", p.errf("expected identifier, found %q", t.Text)
}

// ---- queries ---------------------------------------------------------------------------

// query := intersect { UNION ALL intersect } ; intersect := primary { INTERSECT primary }
func (p *parser) parseQuery() (*Query, error) {
	left, err := p.parseIntersect()
	if err != nil {
		return nil, err
	}
	for {
		switch {
		case p.isKw("UNION"):
			p.pos++
			op := "UNION ALL"
			if p.acceptKw("ALL") {
			} else if p.acceptKw("DISTINCT") {
				return nil, p.unsupported("UNION DISTINCT")
			} else {
				return nil, p.unsupported("UNION without ALL")
			}
			right, err := p.parseIntersect()
			if err != nil {
				return nil, err
			}
			left = &Query{Op: op, Left: left, Right: right}
		case p.isKw("EXCEPT"):
			return nil, p.unsupported("EXCEPT")
		default:
			return left, nil
		}
	}
}

func (p *parser) parseIntersect() (*Query, error) {
	left, err := p.parseQueryPrimary()
	if err != nil {
		return nil, err
	}
	for p.isKw("INTERSECT") {
		p.pos++
		if p.isKw("DISTINCT") || p.isKw("ALL") {
			return nil, p.unsupported("INTERSECT DISTINCT/ALL")
		}
		right, err := p.parseQueryPrimary()
		if err != nil {
			return nil, err
		}
		left = &Query{Op: "INTERSECT", Left: left, Right: right}
	}
	return left, nil
}

func (p *parser) parseQueryPrimary() (*Query, error) {
	if p.isOp("(") {
		p.pos++
		q, err := p.parseQuery()
		if err != nil {
			return nil, err
		}
		if err := p.expectOp(")"); err != nil {
			return nil, err
		}
		return q, nil
	}
	s, err := p.parseSelect()
	if err != nil {
		return nil, err
	}
	return &Query{Select: s}, nil
}

func (p *parser) startsQuery() bool {
	// SELECT ... | WITH ... | ( query
	if p.isKw("SELECT") || p.isKw("WITH") {
		return true
	}
	if p.isOp("(") {
		save := p.pos
		for p.isOp("(") {
			p.pos++
		}
		r := p.isKw("SELECT") || p.isKw("WITH")
		p.pos = save
		return r
	}
	return false
}

func (p *parser) parseSelect() (*Select, error) {
	s := &Select{}
	if p.acceptKw("WITH") {
		for {
			w, err := p.parseWithElem()
			if err != nil {
				return nil, err
			}
			s.With = append(s.With, w)
			if !p.acceptOp(",") {
				break
			}
		}
	}
	if err := p.expectKw("SELECT"); err != nil {
		return nil, err
	}
	if p.acceptKw("DISTINCT") {
		s.Distinct = true
		if p.isKw("ON") {
			return nil, p.unsupported("DISTINCT ON")
		}
	} else {
		p.acceptKw("ALL")
	}
	for {
		e, err := p.parseExprAlias()
		if err != nil {
			return nil, err
		}
		s.Cols = append(s.Cols, e)
		if !p.acceptOp(",") {
			break
		}
	}
	if p.acceptKw("FROM") {
		t, err := p.parseTableExpr()
		if err != nil {
			return nil, err
		}
		s.From = t
		if p.isKw("FINAL") || p.isKw("SAMPLE") {
			return nil, p.unsupported("FINAL/SAMPLE")
		}
		for {
			j, ok, err := p.parseJoin()
			if err != nil {
				return nil, err
			}
			if !ok {
				break
			}
			s.Joins = append(s.Joins, j)
		}
	}
	var err error
	if p.acceptKw("PREWHERE") {
		if s.Prewhere, err = p.parseExpr(); err != nil {
			return nil, err
		}
	}
	if p.acceptKw("WHERE") {
		if s.Where, err = p.parseExpr(); err != nil {
			return nil, err
		}
	}
	if p.acceptKw("GROUP", "BY") {
		for {
			e, err := p.parseExpr()
			if err != nil {
				return nil, err
			}
			s.GroupBy = append(s.GroupBy, e)
			if !p.acceptOp(",") {
				break
			}
		}
		if p.isKw("WITH") {
			return nil, p.unsupported("GROUP BY ... WITH ROLLUP/CUBE/TOTALS")
		}
	}
	if p.acceptKw("HAVING") {
		if s.Having, err = p.parseExpr(); err != nil {
			return nil, err
		}
	}
	if p.isKw("WINDOW") || p.isKw("QUALIFY") {
		return nil, p.unsupported("WINDOW/QUALIFY")
	}
	if p.acceptKw("ORDER", "BY") {
		for {
			e, err := p.parseExpr()
			if err != nil {
				return nil, err
			}
			k := OrderKey{X: e}
			if p.acceptKw("DESC") || p.acceptKw("DESCENDING") {
				k.Desc = true
			} else if p.acceptKw("ASC") || p.acceptKw("ASCENDING") {
			}
			if p.isKw("NULLS") || p.isKw("COLLATE") || p.isKw("WITH") {
				return nil, p.unsupported("ORDER BY modifiers (NULLS/COLLATE/WITH FILL)")
			}
			s.OrderBy = append(s.OrderBy, k)
			if !p.acceptOp(",") {
				break
			}
		}
	}
	if p.acceptKw("LIMIT") {
		a, err := p.parseExpr()
		if err != nil {
			return nil, err
		}
		switch {
		case p.acceptOp(","):
			b, err := p.parseExpr()
			if err != nil {
				return nil, err
			}
			s.Offset, s.Limit = a, b
		case p.isKw("BY"):
			return nil, p.unsupported("LIMIT BY")
		case p.isKw("WITH"):
			return nil, p.unsupported("LIMIT WITH TIES")
		default:
			s.Limit = a
		}
	}
	if p.acceptKw("OFFSET") {
		if s.Offset != nil {
			return nil, p.errf("OFFSET given twice")
		}
		if s.Offset, err = p.parseExpr(); err != nil {
			return nil, err
		}
		if p.acceptKw("ROW") || p.acceptKw("ROWS") {
		}
	}
	if p.acceptKw("SETTINGS") {
		// name = value [, | space] ... (qryn separates settings with a space, which ClickHouse
		// itself rejects when there is more than one; the planners never set more than one).
		s.Settings = map[string]string{}
		for !p.eof() && p.peek().Kind == TokBareWord && p.peekN(1).Text == "=" {
			name := p.peek().Text
			p.pos += 2
			if p.eof() {
				return nil, p.errf("SETTINGS value missing")
			}
			s.Settings[name] = p.peek().Text
			p.pos++
			p.acceptOp(",")
		}
	}
	if p.isKw("FORMAT") || p.isKw("INTO") {
		return nil, p.unsupported("FORMAT / INTO OUTFILE")
	}
	return s, nil
}

func (p *parser) parseWithElem() (With, error) {
	// name AS ( query )
	if (p.peek().Kind == TokBareWord || p.peek().Kind == TokQuotedIdent) && p.isKwAt(1, "AS") && p.peekN(2).Text == "(" {
		save := p.pos
		name, _ := p.parseName()
		p.pos++ // AS
		p.pos++ // (
		if p.startsQuery() {
			q, err := p.parseQuery()
			if err != nil {
				return With{}, err
			}
			if err := p.expectOp(")"); err != nil {
				return With{}, err
			}
			return With{Name: name, Q: q}, nil
		}
		p.pos = save
	}
	// expr AS name
	e, err := p.parseExpr()
	if err != nil {
		return With{}, err
	}
	if err := p.expectKw("AS"); err != nil {
		return With{}, err
	}
	name, err := p.parseName()
	if err != nil {
		return With{}, err
	}
	return With{Name: name, X: e}, nil
}

func (p *parser) parseTableExpr() (*TableExpr, error) {
	t := &TableExpr{}
	if p.isOp("(") {
		p.pos++
		q, err := p.parseQuery()
		if err != nil {
			return nil, err
		}
		if err := p.expectOp(")"); err != nil {
			return nil, err
		}
		t.Sub = q
	} else {
		n, err := p.parseName()
		if err != nil {
			return nil, err
		}
		t.Name = []string{n}
		for p.isOp(".") {
			p.pos++
			n, err := p.parseName()
			if err != nil {
				return nil, err
			}
			t.Name = append(t.Name, n)
		}
		if p.isOp("(") {
			return nil, p.unsupported("table function %s(...)", strings.Join(t.Name, "."))
		}
	}
	if p.acceptKw("AS") {
		n, err := p.parseName()
		if err != nil {
			return nil, err
		}
		t.Alias = n
	} else if !p.eof() && (p.peek().Kind == TokQuotedIdent || (p.peek().Kind == TokBareWord && !reserved[strings.ToUpper(p.peek().Text)])) {
		// implicit alias: FROM t x
		n, _ := p.parseName()
		t.Alias = n
	}
	return t, nil
}

func (p *parser) parseJoin() (Join, bool, error) {
	save := p.pos
	j := Join{}
	seen := false
	for {
		switch {
		case p.isKw("GLOBAL"):
			j.Global = true
		case p.isKw("ANY"), p.isKw("ALL"), p.isKw("SEMI"), p.isKw("ANTI"), p.isKw("ASOF"):
			j.Strictness = strings.ToUpper(p.peek().Text)
		case p.isKw("INNER"), p.isKw("LEFT"), p.isKw("RIGHT"), p.isKw("FULL"), p.isKw("CROSS"):
			if j.Kind != "" {
				return j, false, p.errf("two join kinds")
			}
			j.Kind = strings.ToUpper(p.peek().Text)
		case p.isKw("ARRAY"):
			if j.Kind == "LEFT" {
				j.Kind = "LEFT ARRAY"
			} else if j.Kind == "" {
				j.Kind = "ARRAY"
			} else {
				return j, false, p.errf("bad ARRAY JOIN")
			}
		case p.isKw("OUTER"):
		default:
			goto done
		}
		seen = true
		p.pos++
	}
done:
	if !p.isKw("JOIN") {
		if seen {
			p.pos = save
			// a bare ALL/ANY etc. that is not a join: let the caller fail on it
		}
		if p.isOp(",") && false {
			return j, false, p.unsupported("comma join")
		}
		return j, false, nil
	}
	p.pos++
	if j.Kind == "" {
		j.Kind = "INNER"
	}
	if j.Kind == "ARRAY" || j.Kind == "LEFT ARRAY" {
		for {
			e, err := p.parseExprAlias()
			if err != nil {
				return j, false, err
			}
			j.Array = append(j.Array, e)
			if !p.acceptOp(",") {
				break
			}
		}
		return j, true, nil
	}
	t, err := p.parseTableExpr()
	if err != nil {
		return j, false, err
	}
	j.Table = t
	switch {
	case p.acceptKw("ON"):
		if j.On, err = p.parseExpr(); err != nil {
			return j, false, err
		}
	case p.acceptKw("USING"):
		paren := p.acceptOp("(")
		for {
			n, err := p.parseName()
			if err != nil {
				return j, false, err
			}
			j.Using = append(j.Using, n)
			if !p.acceptOp(",") {
				break
			}
		}
		if paren {
			if err := p.expectOp(")"); err != nil {
				return j, false, err
			}
		}
	default:
		if j.Kind != "CROSS" {
			return j, false, p.errf("JOIN without ON/USING")
		}
	}
	return j, true, nil
}

// ---- expressions -----------------------------------------------------------------------

// parseExprAlias := expr [AS name]
func (p *parser) parseExprAlias() (Expr, error) {
	e, err := p.parseExpr()
	if err != nil {
		return nil, err
	}
	return p.maybeAlias(e)
}

func (p *parser) maybeAlias(e Expr) (Expr, error) {
	if p.acceptKw("AS") {
		n, err := p.parseName()
		if err != nil {
			return nil, err
		}
		return &Alias{X: e, Name: n}, nil
	}
	return e, nil
}

func (p *parser) parseExpr() (Expr, error) { return p.parseLambda() }

// lambda: ident -> expr | (a, b) -> expr | ternary
func (p *parser) parseLambda() (Expr, error) {
	if (p.peek().Kind == TokBareWord || p.peek().Kind == TokQuotedIdent) && p.peekN(1).Kind == TokOp && p.peekN(1).Text == "->" && !p.eof() {
		name, _ := p.parseName()
		p.pos++
		body, err := p.parseExpr()
		if err != nil {
			return nil, err
		}
		return &Lambda{Params: []string{name}, Body: body}, nil
	}
	if p.isOp("(") {
		// (a, b, ...) -> body
		i := 1
		var names []string
		ok := true
		for {
			t := p.peekN(i)
			if t.Kind != TokBareWord && t.Kind != TokQuotedIdent {
				ok = false
				break
			}
			names = append(names, t.Val)
			i++
			if p.peekN(i).Kind == TokOp && p.peekN(i).Text == "," {
				i++
				continue
			}
			break
		}
		if ok && p.peekN(i).Kind == TokOp && p.peekN(i).Text == ")" && p.peekN(i+1).Kind == TokOp && p.peekN(i+1).Text == "->" && p.pos+i+1 < len(p.toks) {
			p.pos += i + 2
			body, err := p.parseExpr()
			if err != nil {
				return nil, err
			}
			return &Lambda{Params: names, Body: body}, nil
		}
	}
	return p.parseTernary()
}

func (p *parser) parseTernary() (Expr, error) {
	c, err := p.parseOr()
	if err != nil {
		return nil, err
	}
	if p.isOp("?") {
		p.pos++
		a, err := p.parseTernary()
		if err != nil {
			return nil, err
		}
		if err := p.expectOp(":"); err != nil {
			return nil, err
		}
		b, err := p.parseTernary()
		if err != nil {
			return nil, err
		}
		return &Cond{C: c, A: a, B: b}, nil
	}
	return c, nil
}

func (p *parser) parseOr() (Expr, error) {
	l, err := p.parseAnd()
	if err != nil {
		return nil, err
	}
	for p.isKw("OR") {
		p.pos++
		r, err := p.parseAnd()
		if err != nil {
			return nil, err
		}
		l = &Binary{Op: "OR", L: l, R: r}
	}
	return l, nil
}

func (p *parser) parseAnd() (Expr, error) {
	l, err := p.parseNot()
	if err != nil {
		return nil, err
	}
	for p.isKw("AND") {
		p.pos++
		r, err := p.parseNot()
		if err != nil {
			return nil, err
		}
		l = &Binary{Op: "AND", L: l, R: r}
	}
	return l, nil
}

func (p *parser) parseNot() (Expr, error) {
	if p.isKw("NOT") && !(p.peekN(1).Kind == TokOp && (p.peekN(1).Text == "," || p.peekN(1).Text == ")")) {
		p.pos++
		x, err := p.parseNot()
		if err != nil {
			return nil, err
		}
		return &Unary{Op: "NOT", X: x}, nil
	}
	return p.parseIsNull()
}

func (p *parser) parseIsNull() (Expr, error) {
	x, err := p.parseCompare()
	if err != nil {
		return nil, err
	}
	for p.isKw("IS") {
		p.pos++
		not := p.acceptKw("NOT")
		if !p.acceptKw("NULL") {
			return nil, p.unsupported("IS [NOT] DISTINCT FROM / IS <other>")
		}
		x = &IsNull{X: x, Not: not}
	}
	return x, nil
}

var cmpOps = map[string]string{"==": "==", "=": "==", "!=": "!=", "<>": "!=", "<": "<", "<=": "<=", ">": ">", ">=": ">=", "<=>": "<=>"}

func (p *parser) parseCompare() (Expr, error) {
	l, err := p.parseConcat()
	if err != nil {
		return nil, err
	}
	for {
		t := p.peek()
		if !p.eof() && t.Kind == TokOp {
			if op, ok := cmpOps[t.Text]; ok {
				if op == "<=>" {
					return nil, p.unsupported("<=> operator")
				}
				p.pos++
				r, err := p.parseConcat()
				if err != nil {
					return nil, err
				}
				l = &Binary{Op: op, L: l, R: r}
				continue
			}
		}
		save := p.pos
		p.acceptKw("GLOBAL")
		not := p.acceptKw("NOT")
		switch {
		case p.acceptKw("IN"):
			in := &In{X: l, Not: not}
			if err := p.parseInRHS(in); err != nil {
				return nil, err
			}
			l = in
			continue
		case p.isKw("LIKE"), p.isKw("ILIKE"):
			fold := p.isKw("ILIKE")
			p.pos++
			r, err := p.parseConcat()
			if err != nil {
				return nil, err
			}
			l = &Like{X: l, P: r, Not: not, Fold: fold}
			continue
		case p.isKw("BETWEEN"):
			return nil, p.unsupported("BETWEEN")
		case p.isKw("REGEXP"):
			return nil, p.unsupported("REGEXP operator")
		}
		p.pos = save
		return l, nil
	}
}

func (p *parser) parseInRHS(in *In) error {
	if p.isOp("(") {
		save := p.pos
		p.pos++
		if p.startsQuery() {
			q, err := p.parseQuery()
			if err != nil {
				return err
			}
			// "IN ((SELECT ...) AS name)": the inlined form of a WITH reference
			if p.acceptKw("AS") {
				if _, err := p.parseName(); err != nil {
					return err
				}
			}
			if err := p.expectOp(")"); err != nil {
				return err
			}
			in.Sub = q
			return nil
		}
		// ( name ) — a table / WITH reference in parentheses — or a list of expressions
		if (p.peek().Kind == TokBareWord || p.peek().Kind == TokQuotedIdent) && p.peekN(1).Kind == TokOp && p.peekN(1).Text == ")" &&
			!strings.EqualFold(p.peek().Text, "NULL") && !strings.EqualFold(p.peek().Text, "true") && !strings.EqualFold(p.peek().Text, "false") {
			n, _ := p.parseName()
			p.pos++
			in.Ref = n
			return nil
		}
		p.pos = save
		// The right side is an ordinary operand: "(1, 2)" parses as a tuple literal, "(x)" as
		// a parenthesised expression — exactly ClickHouse's reading.
		e, err := p.parseConcat()
		if err != nil {
			return err
		}
		switch v := e.(type) {
		case *TupleLit:
			in.List = v.Elems
		default:
			in.List = []Expr{e}
		}
		return nil
	}
	if p.peek().Kind == TokBareWord || p.peek().Kind == TokQuotedIdent {
		n, err := p.parseName()
		if err != nil {
			return err
		}
		parts := []string{n}
		for p.isOp(".") {
			p.pos++
			n, err := p.parseName()
			if err != nil {
				return err
			}
			parts = append(parts, n)
		}
		if p.isOp("(") {
			return p.unsupported("IN function(...)")
		}
		in.Ref = parts[len(parts)-1]
		if len(parts) > 1 {
			in.RefQ = parts
		}
		return nil
	}
	if p.isOp("[") {
		e, err := p.parseConcat()
		if err != nil {
			return err
		}
		if a, ok := e.(*ArrayLit); ok {
			in.List = a.Elems
			return nil
		}
		return p.unsupported("IN <array expression>")
	}
	return p.errf("bad right side of IN")
}

func (p *parser) parseConcat() (Expr, error) {
	l, err := p.parseAdd()
	if err != nil {
		return nil, err
	}
	for p.isOp("||") {
		p.pos++
		r, err := p.parseAdd()
		if err != nil {
			return nil, err
		}
		l = &Binary{Op: "||", L: l, R: r}
	}
	return l, nil
}

func (p *parser) parseAdd() (Expr, error) {
	l, err := p.parseMul()
	if err != nil {
		return nil, err
	}
	for p.isOp("+") || p.isOp("-") {
		op := p.peek().Text
		p.pos++
		r, err := p.parseMul()
		if err != nil {
			return nil, err
		}
		l = &Binary{Op: op, L: l, R: r}
	}
	return l, nil
}

func (p *parser) parseMul() (Expr, error) {
	l, err := p.parseUnary()
	if err != nil {
		return nil, err
	}
	for p.isOp("*") || p.isOp("/") || p.isOp("%") {
		op := p.peek().Text
		p.pos++
		r, err := p.parseUnary()
		if err != nil {
			return nil, err
		}
		l = &Binary{Op: op, L: l, R: r}
	}
	if p.isKw("DIV") || p.isKw("MOD") {
		return nil, p.unsupported("DIV/MOD operators")
	}
	return l, nil
}

func (p *parser) parseUnary() (Expr, error) {
	if p.isOp("-") {
		p.pos++
		// a negative numeric literal is a literal (ClickHouse: ParserNumber accepts the sign)
		if p.peek().Kind == TokNumber && !p.eof() {
			v, err := parseNumber(p.peek().Text, true)
			if err != nil {
				return nil, p.errf("%v", err)
			}
			p.pos++
			return p.parsePostfix(&Lit{V: v})
		}
		x, err := p.parseUnary()
		if err != nil {
			return nil, err
		}
		return &Unary{Op: "-", X: x}, nil
	}
	if p.isOp("+") {
		return nil, p.unsupported("unary plus")
	}
	prim, err := p.parsePrimary()
	if err != nil {
		return nil, err
	}
	return p.parsePostfix(prim)
}

func (p *parser) parsePostfix(x Expr) (Expr, error) {
	for {
		switch {
		case p.isOp("["):
			p.pos++
			i, err := p.parseExpr()
			if err != nil {
				return nil, err
			}
			if err := p.expectOp("]"); err != nil {
				return nil, err
			}
			x = &Index{X: x, I: i}
		case p.isOp("."):
			nt := p.peekN(1)
			if nt.Kind == TokNumber {
				n, err := strconv.Atoi(nt.Text)
				if err != nil || n < 1 {
					return nil, p.errf("bad tuple index %q", nt.Text)
				}
				p.pos += 2
				x = &TupleElem{X: x, N: n}
				continue
			}
			if id, ok := x.(*Ident); ok && (nt.Kind == TokBareWord || nt.Kind == TokQuotedIdent) {
				p.pos += 2
				id.Parts = append(id.Parts, nt.Val)
				continue
			}
			if id, ok := x.(*Ident); ok && nt.Kind == TokOp && nt.Text == "*" {
				if len(id.Parts) != 1 {
					return nil, p.unsupported("db.table.*")
				}
				p.pos += 2
				return &Star{Qual: id.Parts[0]}, nil
			}
			return nil, p.unsupported("named tuple element / nested access after %s", ExprString(x))
		case p.isOp("::"):
			p.pos++
			ty, err := p.parseTypeName()
			if err != nil {
				return nil, err
			}
			x = &Cast{X: x, Type: ty}
		default:
			return x, nil
		}
	}
}

func (p *parser) parseTypeName() (string, error) {
	n, err := p.parseName()
	if err != nil {
		return "", err
	}
	if p.isOp("(") {
		depth := 0
		start := p.peek().Pos
		end := start
		for !p.eof() {
			t := p.peek()
			if t.Kind == TokOp && t.Text == "(" {
				depth++
			}
			if t.Kind == TokOp && t.Text == ")" {
				depth--
			}
			end = t.Pos + len(t.Text)
			p.pos++
			if depth == 0 {
				break
			}
		}
		if depth != 0 {
			return "", p.errf("unbalanced type name")
		}
		n += p.src[start:end]
	}
	return n, nil
}

func parseNumber(text string, neg bool) (any, error) {
	lower := strings.ToLower(text)
	if strings.HasPrefix(lower, "0x") || strings.HasPrefix(lower, "0b") {
		base := 16
		if lower[1] == 'b' {
			base = 2
		}
		u, err := strconv.ParseUint(lower[2:], base, 64)
		if err != nil {
			return nil, err
		}
		if neg {
			return shrinkInt(-int64(u)), nil
		}
		return shrinkUint(u), nil
	}
	if !strings.ContainsAny(lower, ".e") {
		u, err := strconv.ParseUint(lower, 10, 64)
		if err == nil {
			if neg {
				if u > 1<<63 {
					return -float64(u), nil
				}
				return shrinkInt(-int64(u)), nil
			}
			return shrinkUint(u), nil
		}
	}
	f, err := strconv.ParseFloat(lower, 64)
	if err != nil {
		return nil, err
	}
	if neg {
		f = -f
	}
	return f, nil
}

// ClickHouse types an integer literal with the narrowest type that holds it.
func shrinkUint(u uint64) any {
	switch {
	case u <= math.MaxUint8:
		return uint8(u)
	case u <= math.MaxUint16:
		return uint16(u)
	case u <= math.MaxUint32:
		return uint32(u)
	}
	return u
}
func shrinkInt(i int64) any {
	switch {
	case i >= 0:
		return shrinkUint(uint64(i))
	case i >= math.MinInt8:
		return int8(i)
	case i >= math.MinInt16:
		return int16(i)
	case i >= math.MinInt32:
		return int32(i)
	}
	return i
}

func (p *parser) parsePrimary() (Expr, error) {
	if p.eof() {
		return nil, p.errf("unexpected end of statement")
	}
	t := p.peek()
	switch t.Kind {
	case TokString:
		p.pos++
		return &Lit{V: t.Val}, nil
	case TokNumber:
		v, err := parseNumber(t.Text, false)
		if err != nil {
			return nil, p.errf("%v", err)
		}
		p.pos++
		return &Lit{V: v}, nil
	case TokQuotedIdent:
		p.pos++
		return &Ident{Parts: []string{t.Val}}, nil
	case TokBareWord:
		up := strings.ToUpper(t.Text)
		next := p.peekN(1)
		isCall := next.Kind == TokOp && next.Text == "(" && p.pos+1 < len(p.toks)
		if !isCall {
			switch up {
			case "NULL":
				p.pos++
				return &Lit{V: nil}, nil
			case "TRUE":
				p.pos++
				return &Lit{V: true}, nil
			case "FALSE":
				p.pos++
				return &Lit{V: false}, nil
			case "INTERVAL":
				return p.parseInterval()
			case "CASE":
				return nil, p.unsupported("CASE")
			case "SELECT", "FROM", "WHERE", "GROUP", "ORDER", "LIMIT", "HAVING", "JOIN", "ON", "AS", "AND", "OR", "IN", "BY", "UNION", "PREWHERE":
				return nil, p.errf("unexpected keyword %s", up)
			}
			p.pos++
			return &Ident{Parts: []string{t.Text}}, nil
		}
		switch up {
		case "CAST", "EXTRACT", "SUBSTRING", "TRIM", "POSITION":
			// functions with an SQL special syntax next to the ordinary comma call
			return p.parseSpecialCall(up)
		case "DATEADD", "DATE_ADD", "DATESUB", "DATE_SUB", "DATEDIFF", "DATE_DIFF", "TIMESTAMPADD", "TIMESTAMP_ADD", "TIMESTAMPSUB", "TIMESTAMP_SUB", "EXISTS", "CASE":
			return nil, p.unsupported("special-syntax function %s", up)
		case "SELECT", "WITH":
			return nil, p.errf("unexpected %s", up)
		case "NOT":
			// NOT (x)
			p.pos++
			x, err := p.parseNot()
			if err != nil {
				return nil, err
			}
			return &Unary{Op: "NOT", X: x}, nil
		case "INTERVAL":
			return p.parseInterval()
		}
		return p.parseCall()
	case TokOp:
		switch t.Text {
		case "(":
			p.pos++
			if p.startsQuerySelect() {
				q, err := p.parseQuery()
				if err != nil {
					return nil, err
				}
				var sub Expr = &Subquery{Q: q}
				if p.isKw("AS") {
					// "((SELECT ...) AS name)"
					if sub, err = p.maybeAlias(sub); err != nil {
						return nil, err
					}
				}
				if err := p.expectOp(")"); err != nil {
					return nil, err
				}
				return sub, nil
			}
			if p.isOp(")") {
				// "()" — the empty tuple; ClickHouse rejects it in every context the planners
				// could produce ("WHERE (...) and ()").
				return nil, p.errf("empty parentheses")
			}
			first, err := p.parseExprAlias()
			if err != nil {
				return nil, err
			}
			if p.isOp(",") {
				elems := []Expr{first}
				for p.acceptOp(",") {
					if p.isOp(")") {
						break // trailing comma
					}
					e, err := p.parseExprAlias()
					if err != nil {
						return nil, err
					}
					elems = append(elems, e)
				}
				if err := p.expectOp(")"); err != nil {
					return nil, err
				}
				return &TupleLit{Elems: elems}, nil
			}
			if err := p.expectOp(")"); err != nil {
				return nil, err
			}
			return first, nil
		case "[":
			p.pos++
			var elems []Expr
			if !p.isOp("]") {
				for {
					e, err := p.parseExprAlias()
					if err != nil {
						return nil, err
					}
					elems = append(elems, e)
					if !p.acceptOp(",") {
						break
					}
				}
			}
			if err := p.expectOp("]"); err != nil {
				return nil, err
			}
			return &ArrayLit{Elems: elems}, nil
		case "*":
			p.pos++
			return &Star{}, nil
		case "{":
			return nil, p.unsupported("query parameter / map literal {…}")
		}
	}
	return nil, p.errf("unexpected %q", t.Text)
}

// inside "(": does a query start here (SELECT / WITH / nested parens leading to SELECT)?
func (p *parser) startsQuerySelect() bool { return p.startsQuery() }

func (p *parser) parseInterval() (Expr, error) {
	p.pos++ // INTERVAL
	t := p.peek()
	switch t.Kind {
	case TokString:
		p.pos++
		f := strings.Fields(t.Val)
		if len(f) != 2 {
			return nil, p.unsupported("INTERVAL %q", t.Val)
		}
		n, err := strconv.ParseInt(f[0], 10, 64)
		if err != nil {
			return nil, p.unsupported("INTERVAL %q", t.Val)
		}
		return &Interval{N: n, Unit: normUnit(f[1])}, nil
	case TokNumber:
		n, err := strconv.ParseInt(t.Text, 10, 64)
		if err != nil {
			return nil, p.unsupported("INTERVAL %s", t.Text)
		}
		p.pos++
		u, err := p.parseName()
		if err != nil {
			return nil, err
		}
		return &Interval{N: n, Unit: normUnit(u)}, nil
	}
	return nil, p.unsupported("INTERVAL <expression>")
}

func normUnit(u string) string {
	u = strings.ToUpper(strings.TrimSuffix(strings.ToLower(u), "s"))
	return u
}

func (p *parser) parseArgs() (args []Expr, distinct bool, err error) {
	if err = p.expectOp("("); err != nil {
		return
	}
	if p.acceptKw("DISTINCT") {
		distinct = true
	}
	if !p.isOp(")") {
		for {
			var e Expr
			e, err = p.parseExprAlias()
			if err != nil {
				return
			}
			args = append(args, e)
			if !p.acceptOp(",") {
				break
			}
		}
	}
	err = p.expectOp(")")
	return
}

func (p *parser) parseCall() (Expr, error) {
	name := p.peek().Text
	p.pos++
	args, distinct, err := p.parseArgs()
	if err != nil {
		return nil, err
	}
	c := &Call{Name: name, Args: args, Distinct: distinct}
	if p.isOp("(") {
		// parametric aggregate: f(params)(args)
		if distinct {
			return nil, p.errf("DISTINCT in parameter list")
		}
		args2, distinct2, err := p.parseArgs()
		if err != nil {
			return nil, err
		}
		c.Params, c.HasParam, c.Args, c.Distinct = args, true, args2, distinct2
	}
	if p.isKw("OVER") || p.isKw("FILTER") || p.isKw("IGNORE") || p.isKw("RESPECT") {
		return nil, p.unsupported("window function / FILTER")
	}
	if strings.EqualFold(c.Name, "tuple") && !c.HasParam && !c.Distinct {
		return &TupleLit{Elems: c.Args}, nil
	}
	return c, nil
}

// parseSpecialCall handles the functions ClickHouse accepts both as an ordinary call and in
// an SQL special syntax (src/Parsers/ExpressionElementParsers.cpp, ParserFunction special
// cases): CAST(x AS T) | CAST(x, 'T'); POSITION(needle IN haystack) | position(haystack,
// needle[, start]); SUBSTRING(s FROM o [FOR l]) | substring(s, o[, l]); TRIM([LEADING |
// TRAILING | BOTH] chars FROM s) | trim(s); EXTRACT(part FROM date) (not modelled) |
// extract(haystack, pattern). The special forms are rewritten to the ordinary functions.
func (p *parser) parseSpecialCall(up string) (Expr, error) {
	save := p.pos
	p.pos += 2 // name (
	switch up {
	case "CAST":
		x, err := p.parseExpr()
		if err != nil {
			return nil, err
		}
		var ty string
		switch {
		case p.acceptKw("AS"):
			if ty, err = p.parseTypeName(); err != nil {
				return nil, err
			}
		case p.acceptOp(","):
			t := p.peek()
			if t.Kind != TokString {
				return nil, p.unsupported("CAST with a non-literal type")
			}
			p.pos++
			ty = t.Val
		default:
			return nil, p.errf("CAST: expected AS or ','")
		}
		if err := p.expectOp(")"); err != nil {
			return nil, err
		}
		return p.parsePostfixNone(&Cast{X: x, Type: ty})
	case "POSITION":
		if a, err := p.parseConcat(); err == nil && p.acceptKw("IN") {
			b, err := p.parseConcat()
			if err != nil {
				return nil, err
			}
			if err := p.expectOp(")"); err != nil {
				return nil, err
			}
			return &Call{Name: "position", Args: []Expr{b, a}}, nil
		}
	case "SUBSTRING":
		if s, err := p.parseExpr(); err == nil && p.acceptKw("FROM") {
			o, err := p.parseExpr()
			if err != nil {
				return nil, err
			}
			args := []Expr{s, o}
			if p.acceptKw("FOR") {
				l, err := p.parseExpr()
				if err != nil {
					return nil, err
				}
				args = append(args, l)
			}
			if err := p.expectOp(")"); err != nil {
				return nil, err
			}
			return &Call{Name: "substring", Args: args}, nil
		}
	case "TRIM":
		for _, mode := range []string{"LEADING", "TRAILING", "BOTH"} {
			if p.acceptKw(mode) {
				chars, err := p.parseConcat()
				if err != nil {
					return nil, err
				}
				if err := p.expectKw("FROM"); err != nil {
					return nil, err
				}
				s, err := p.parseExpr()
				if err != nil {
					return nil, err
				}
				if err := p.expectOp(")"); err != nil {
					return nil, err
				}
				return &Call{Name: "__trimChars", Args: []Expr{s, chars, &Lit{V: mode}}}, nil
			}
		}
	case "EXTRACT":
		if p.peek().Kind == TokBareWord && p.isKwAt(1, "FROM") {
			return nil, p.unsupported("EXTRACT(part FROM date)")
		}
	}
	p.pos = save
	return p.parseCall()
}

// parsePostfixNone exists so that special forms return through one place (postfix operators
// are applied by the caller, parseUnary).
func (p *parser) parsePostfixNone(e Expr) (Expr, error) { return e, nil }

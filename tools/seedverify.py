#!/usr/bin/env python3
"""Confirm a seeded change delivered by a seeder agent and store it under /verif/seeded/<id>/.

  tools/seedverify.py <deliverables-dir> <letter> <seed-id>

Steps (all in a scratch worktree of /repo HEAD that is removed afterwards):
  demo without the change passes; patch applies; `go build` of the touched packages works;
  the full pinned suite gives the same per-package ok/FAIL list as the unchanged tree;
  demo with the change fails.
"""
import json, os, re, shutil, subprocess, sys

out, letter, sid = sys.argv[1], sys.argv[2], sys.argv[3]
env = dict(os.environ, GOFLAGS="-mod=mod", GOPROXY="off")
wt = "/tmp/sv-" + sid
meta = json.load(open(os.path.join(out, letter + "_meta.json")))
ran = []

def sh(cmd, cwd=wt, timeout=1800):
    p = subprocess.run(cmd, shell=True, cwd=cwd, env=env, stdout=subprocess.PIPE, stderr=subprocess.STDOUT, text=True, timeout=timeout)
    return p.returncode, p.stdout

def suite_list(txt):
    res = []
    for ln in txt.splitlines():
        m = re.match(r"^(ok|FAIL|---|\?)\s+(\S+)", ln)
        if m and m.group(1) in ("ok", "FAIL"):
            res.append(m.group(1) + " " + m.group(2))
    return sorted(set(res))

subprocess.run(["git", "-C", "/repo", "worktree", "remove", "--force", wt], stderr=subprocess.DEVNULL)
subprocess.check_call(["git", "-C", "/repo", "worktree", "add", "--detach", wt, "HEAD", "-q"])
try:
    base_file = "/tmp/sv-baseline-%s.txt" % subprocess.check_output(["git", "-C", "/repo", "rev-parse", "--short", "HEAD"], text=True).strip()
    if not os.path.exists(base_file):
        rc, txt = sh("go test -vet=off -count=1 ./...")
        open(base_file, "w").write("\n".join(suite_list(txt)))
    baseline = open(base_file).read().split("\n")

    # demo files (a_demo_test.go or a_demo/ directory)
    demo_src = [f for f in os.listdir(out) if f.startswith(letter + "_demo")]
    demo_path = meta["demo_path"].split(" ")[0].strip()
    def place():
        for f in demo_src:
            src = os.path.join(out, f)
            dst = os.path.join(wt, demo_path)
            if os.path.isdir(src):
                shutil.copytree(src, dst, dirs_exist_ok=True)
            else:
                os.makedirs(os.path.dirname(dst), exist_ok=True)
                shutil.copyfile(src, dst)
    def unplace():
        dst = os.path.join(wt, demo_path)
        if os.path.isdir(dst) and any(os.path.isdir(os.path.join(out, f)) for f in demo_src):
            shutil.rmtree(dst)
        elif os.path.exists(dst):
            os.remove(dst)
    demo_cmd = meta["demo_cmd"]
    place()
    rc0, t0 = sh(demo_cmd)
    ran.append("demo on unchanged tree: exit %d" % rc0)
    unplace()
    rc, t = sh("git apply " + os.path.join(out, letter + ".diff"))
    ran.append("git apply: exit %d %s" % (rc, t.strip()))
    ok = rc == 0 and rc0 == 0
    rcb, tb = sh("go build ./... 2>&1 | grep -v '^#' | grep -v 'legacy/unmarshal.go' | grep -v 'writer/http/http.go' ; true")
    ran.append("go build ./... with the change: new errors: %r" % tb.strip()[:300])
    ok = ok and tb.strip() == ""
    rcs, ts = sh("go test -vet=off -count=1 ./...")
    withchange = suite_list(ts)
    same = withchange == [x for x in baseline if x]
    ran.append("full suite with the change: per-package ok/FAIL list %s the unchanged tree's (%d packages)" % ("identical to" if same else "DIFFERS from", len(withchange)))
    ok = ok and same
    place()
    rc1, t1 = sh(demo_cmd)
    ran.append("demo with the change: exit %d; tail: %s" % (rc1, t1.strip()[-600:]))
    ok = ok and rc1 != 0
    print("\n".join(ran))
    print("CONFIRMED" if ok else "NOT CONFIRMED")
    if ok:
        dst = os.path.join("/verif/seeded", sid)
        os.makedirs(dst, exist_ok=True)
        shutil.copyfile(os.path.join(out, letter + ".diff"), os.path.join(dst, "patch.diff"))
        for f in demo_src:
            src = os.path.join(out, f)
            if os.path.isdir(src):
                shutil.copytree(src, os.path.join(dst, "demo"), dirs_exist_ok=True)
            else:
                # not named *_test.go so that nothing under /verif picks it up by accident
                shutil.copyfile(src, os.path.join(dst, "demo_test.go.txt"))
        json.dump({"id": sid, "property": meta["property"], "summary": meta["summary"],
                   "needs_to_manifest": meta["needs_to_manifest"],
                   "demo_place_at": demo_path, "demo_cmd": demo_cmd,
                   "base_commit": subprocess.check_output(["git", "-C", "/repo", "rev-parse", "HEAD"], text=True).strip(),
                   "confirmed_by_integrator": ran, "seeder_ran": meta.get("ran", []),
                   "caught_by": []},
                  open(os.path.join(dst, "meta.json"), "w"), indent=1)
finally:
    subprocess.run(["git", "-C", "/repo", "worktree", "remove", "--force", wt])

#!/usr/bin/env python3
"""Merge known_findings.d/*.json into known_findings.json (the single committed file) and
point every `fixed` entry at the commit on /repo's main branch with the same subject line
as the builder's fix-branch commit. Entries whose fix is not on main yet stay in
known_findings.d. Idempotent."""
import glob, json, os, re, subprocess
os.chdir("/verif")
main = json.load(open("known_findings.json"))
have = {f["id"]: f for f in main["findings"]}
subjects = {}
for ln in subprocess.check_output(["git", "-C", "/repo", "log", "--format=%h %s", "main"], text=True).splitlines():
    h, s = ln.split(" ", 1)
    subjects.setdefault(s, h)
def on_main(commit):
    try:
        s = subprocess.check_output(["git", "-C", "/repo", "log", "-1", "--format=%s", commit], text=True, stderr=subprocess.DEVNULL).strip()
    except subprocess.CalledProcessError:
        return None
    return subjects.get(s)
for fn in sorted(glob.glob("known_findings.d/*.json")):
    doc = json.load(open(fn))
    rest = []
    for f in doc["findings"]:
        if f.get("status") == "fixed":
            h = on_main(f.get("commit", ""))
            if not h:
                rest.append(f)
                continue
            old = f["commit"]
            f["commit"] = h
            f["what"] = f["what"].replace(old, h)
        have[f["id"]] = f
    if rest:
        json.dump({"findings": rest}, open(fn, "w"), indent=1)
    else:
        os.remove(fn)
main["findings"] = sorted(have.values(), key=lambda f: (f["property"], f["id"]))
with open("known_findings.json", "w") as fh:
    fh.write('{\n "comment": %s,\n "findings": [\n' % json.dumps(main["comment"]))
    fh.write(",\n".join("  " + json.dumps(f) for f in main["findings"]))
    fh.write("\n ]\n}\n")
print(len(main["findings"]), "findings in known_findings.json;", len(glob.glob("known_findings.d/*.json")), "files left in known_findings.d")

#!/usr/bin/env python3
"""Refresh the generated part of DESIGN.md: the seeded-change table between its markers."""
import subprocess, re
p = "/verif/DESIGN.md"
d = open(p).read()
tbl = subprocess.check_output(["/verif/tools/seedtable.py"], text=True)
intro = ("**Independently seeded changes.** Fresh sub-agents that saw only the text of one property and a scratch\n"
         "worktree of `/repo` (nothing from `/verif`) each produced changes that break the property, still build and\n"
         "pass the pinned suite, and need something specific to manifest; each was confirmed by the integrator\n"
         "(`tools/seedverify.py`: demo passes without / fails with the change, suite unchanged) and stored under\n"
         "`seeded/<id>/` (patch.diff, demonstration, meta.json, result.json). `tools/seedrun.py` applies each to a\n"
         "scratch worktree of the current `/repo` HEAD and runs the property's registered check (`VERIF_REPO`), after\n"
         "verifying that the check is silent on the unchanged tree. Misses were fed back to the builders as a\n"
         "*class* of blind spot (never the patch itself) and the generators/oracles were strengthened; the `result`\n"
         "column shows the state at the last run, the history of earlier misses is in section 8.5's text.\n\n")
d = re.sub(r"<!-- SEEDED-TABLE-BEGIN -->.*?<!-- SEEDED-TABLE-END -->", lambda m: "<!-- SEEDED-TABLE-BEGIN -->\n" + intro + tbl + "<!-- SEEDED-TABLE-END -->", d, flags=re.S)
open(p, "w").write(d)

#!/bin/bash
# usage: tools/silence.sh "<props>" "<seeds>" [tier]  — runs checks on the unchanged tree, evidence to /tmp (not /verif)
props=${1:-"C01 C02 C03 C04 C05 C06 C07 C08 C09 C10 C11 C12 C13 C14 C15 C16 C17 C18 C19 C20"}
seeds=${2:-"2 3 4 5"}
tier=${3:-quick}
cd /verif
for p in $props; do for s in $seeds; do
  out=$(VERIF_SEED=$s VERIF_OUT=/tmp/silence-out ./check $p $tier 2>&1); rc=$?
  echo "$p seed=$s $tier exit=$rc $(echo "$out" | grep -v '^KNOWN-FINDING' | tail -1)"
  if [ $rc -ne 0 ]; then echo "$out" | grep -v '^KNOWN-FINDING' | head -40; fi
done; done
rm -rf /tmp/silence-out

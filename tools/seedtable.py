#!/usr/bin/env python3
"""Markdown table: which check catches which seeded change (from seeded/*/meta.json + result.json)."""
import glob, json, os
rows = []
for d in sorted(glob.glob("/verif/seeded/*/")):
    sid = os.path.basename(d.rstrip("/"))
    m = json.load(open(d + "meta.json"))
    r = json.load(open(d + "result.json")) if os.path.exists(d + "result.json") else None
    if r is None:
        res = "not run"
    elif r.get("caught"):
        v = [x for run in r["runs"] for x in run.get("violations", [])]
        chk = ""
        if v:
            b = os.path.basename(v[0].split("replay=")[-1])
            chk = b.split("-")[0] if not b.startswith("crash") else "process death (WAL)"
        res = "caught by %s %s (`%s`), seed %s" % (r["property"], r["tier"], chk, [x["seed"] for x in r["runs"] if x["exit"] == 1][:1])
    else:
        res = "MISSED at %s seeds %s" % (r["tier"], [x["seed"] for x in r["runs"]])
    for extra in sorted(glob.glob(d + "result-*.json")):
        x = json.load(open(extra))
        if x.get("caught"):
            if extra.endswith("result-thorough.json"):
                res += "; caught by %s thorough" % x["property"]
            else:
                res += "; caught by the check of %s (%s)" % (x["property"], x["tier"])
    hist = m.get("history", "")
    rows.append("| %s | %s | %s | %s |" % (sid, m["summary"][:150].replace("|", "/").replace("\n", " ") + "…", m["needs_to_manifest"][:120].replace("|", "/").replace("\n", " ") + "…", res + (" — " + hist if hist else "")))
print("| seeded change | what it does | what it needs to manifest | result |\n|---|---|---|---|")
print("\n".join(rows))

#!/usr/bin/env python3
"""Generate MANIFEST.json from tools/manifest_src.json (claimed list + per-property text)."""
import json, os, subprocess
os.chdir("/verif")
src = json.load(open("tools/manifest_src.json"))
hooks = sorted(subprocess.run(["git", "-C", "/repo", "log", "--format=%h", "--grep=^hook:", "main"], stdout=subprocess.PIPE, text=True).stdout.split())
checks, na = [], []
for pid in sorted(src["props"]):
    p = src["props"][pid]
    if pid in src["claimed"]:
        # the level is declared by the test binary (evid.Config.Level) and written into the
        # evidence file: the manifest follows it so the two never disagree
        try:
            p["level"] = json.load(open("evidence/%s.json" % pid))["level"]
        except Exception:
            pass
        checks.append({
            "property_id": pid, "quick_cmd": "./check %s quick" % pid, "thorough_cmd": "./check %s thorough" % pid,
            "evidence_file": "evidence/%s.json" % pid, "replay_cmd_template": "./check %s quick --replay {path}" % pid,
            "engine": "qrynverif harness",
            "level_claimed": {"category": p["level"], "text": p["text"], "design_ref": "DESIGN.md section 3 (%s), section 8" % pid},
            "level_note": p["note"], "technique": p["technique"]})
    else:
        na.append({"property_id": pid, "reason": p.get("na_reason", src["pending_reason"])})
doc = {
 "version": 1,
 "setup_cmd": "./check setup",
 "hooks": {"guard": "verif", "enable": "harness test binaries are built with `go test -tags verif`; hook files in /repo (if any) carry `//go:build verif`",
           "baseline_off_cmd": "cd /repo && GOFLAGS=-mod=mod go test -vet=off -count=1 -timeout 25m ./...",
           "source_commits": hooks, "add_only": True},
 "engines": [{"name": "qrynverif harness", "path": "harness", "serves_properties": sorted(src["claimed"]),
              "kind_free_text": "Go module importing /repo (replace directive regenerated from /repo/go.mod on every run); rapid v1.3.0 generated cases with a Gen/Pred split, plain-JSON replay files, native go fuzzing in the thorough tier, reference ClickHouse-subset interpreter (chsim), scripted database/sql and ClickHouse client fakes; evidence written by the test binaries and merged by ./check"}],
 "checks": checks,
 "not_applicable": na,
 "notes": "Exit codes: 0 held / 1 VIOLATION line printed / 2 inconclusive (infrastructure). Known findings: known_findings.json (KNOWN-FINDING lines, exit 0). Seeded changes used to test sensitivity: seeded/<id>/."
}
json.dump(doc, open("MANIFEST.json", "w"), indent=1)
print("claimed:", ",".join(c["property_id"] for c in checks), "| pending:", ",".join(x["property_id"] for x in na))

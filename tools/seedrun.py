#!/usr/bin/env python3
"""Run the registered check(s) against every seeded change under /verif/seeded.

  tools/seedrun.py [--tier quick|thorough] [--seeds 1,2] [--only C03-a,C16-b] [--props C03]

Each change is applied to a scratch worktree of /repo HEAD (so /repo itself stays clean while
other work goes on), the property's check runs with VERIF_REPO pointing at it and VERIF_OUT
under /tmp, and the result is written to seeded/<id>/result.json and summarised.
"""
import json, os, subprocess, sys, shutil, time

args = sys.argv[1:]
def opt(name, default):
    return args[args.index(name) + 1] if name in args else default
tier = opt("--tier", "quick")
seeds = [int(x) for x in opt("--seeds", "1").split(",")]
only = set(opt("--only", "").split(",")) - {""}
props = set(opt("--props", "").split(",")) - {""}
as_prop = opt("--as", "")  # run another property's check against the selected seeds (result stored as result-<PROP>.json)
root = "/verif/seeded"
summary = []
baseline_ok = {}
def baseline(prop):
    """A catch only counts if the check is silent on the unchanged tree."""
    if prop not in baseline_ok:
        env = dict(os.environ, VERIF_OUT="/tmp/sr-base-" + prop, VERIF_SEED=str(seeds[0]))
        p = subprocess.run(["/verif/check", prop, tier], cwd="/verif", env=env, stdout=subprocess.PIPE, stderr=subprocess.STDOUT, text=True)
        baseline_ok[prop] = p.returncode == 0
        shutil.rmtree("/tmp/sr-base-" + prop, ignore_errors=True)
    return baseline_ok[prop]
for sid in sorted(os.listdir(root)):
    d = os.path.join(root, sid)
    mp = os.path.join(d, "meta.json")
    if not os.path.exists(mp):
        continue
    meta = json.load(open(mp))
    if only and sid not in only:
        continue
    if props and meta["property"] not in props and not as_prop:
        continue
    prop = as_prop or meta["property"]
    if not os.path.exists("/verif/harness/props/%s/prop.json" % prop.lower()):
        summary.append((sid, prop, "no check yet"))
        continue
    if not baseline(prop):
        summary.append((sid, prop, "check is not silent on the unchanged tree: result would be meaningless"))
        continue
    wt = "/tmp/sr-" + sid
    subprocess.run(["git", "-C", "/repo", "worktree", "remove", "--force", wt], stderr=subprocess.DEVNULL)
    subprocess.check_call(["git", "-C", "/repo", "worktree", "add", "--detach", wt, "HEAD", "-q"])
    res = {"seed_id": sid, "property": prop, "tier": tier, "runs": []}
    try:
        p = subprocess.run(["git", "apply", os.path.join(d, "patch.diff")], cwd=wt, stdout=subprocess.PIPE, stderr=subprocess.STDOUT, text=True)
        if p.returncode != 0:
            summary.append((sid, prop, "patch does not apply on HEAD: " + p.stdout.strip()[:200]))
            continue
        caught = False
        for s in seeds:
            out = "/tmp/sr-out-" + sid
            env = dict(os.environ, VERIF_REPO=wt, VERIF_OUT=out, VERIF_SEED=str(s))
            t0 = time.time()
            p = subprocess.run(["/verif/check", prop, tier], cwd="/verif", env=env, stdout=subprocess.PIPE, stderr=subprocess.STDOUT, text=True)
            viol = [l for l in p.stdout.splitlines() if l.startswith("VIOLATION")]
            res["runs"].append({"seed": s, "exit": p.returncode, "violations": viol[:3], "wall_s": round(time.time() - t0, 1),
                                "tail": p.stdout[-1500:] if p.returncode != 0 else ""})
            shutil.rmtree(out, ignore_errors=True)
            if p.returncode == 1 and viol:
                caught = True
                break
        res["caught"] = caught
        json.dump(res, open(os.path.join(d, "result-%s.json" % prop if as_prop else ("result-thorough.json" if tier == "thorough" else "result.json")), "w"), indent=1)
        summary.append((sid, prop, "CAUGHT" if caught else "missed (exits %s)" % [r["exit"] for r in res["runs"]]))
    finally:
        subprocess.run(["git", "-C", "/repo", "worktree", "remove", "--force", wt])
        import hashlib
        h = hashlib.sha1(wt.encode()).hexdigest()[:10]
        shutil.rmtree("/verif/harness/.mods/" + h, ignore_errors=True)
        shutil.rmtree("/verif/harness/.bin/" + h, ignore_errors=True)
for s in summary:
    print("%-8s %-4s %s" % s)
